#!/bin/sh
# offline setup: nothing to build (pure Python run by /venv/bin/python); run the machinery's self-test
here="$(cd "$(dirname "$0")" && pwd)"
cd "$here" && PYTHONDONTWRITEBYTECODE=1 PYTHONPATH="$here" /venv/bin/python -m vf.selftest
