#!/bin/sh
# usage: tools/mutate.sh <check-id> <file-relative-to-repo> <sed-expression> : applies a sed edit to a scratch copy, runs repo tests + the check
set -e
id="$1"; file="$2"; expr="$3"
d=/var/tmp/vf-mut-$$
rm -rf $d; mkdir -p $d; rsync -a --exclude .git /repo/ $d/
sed -i "$expr" "$d/$file"
if diff -q /repo/$file $d/$file >/dev/null; then echo "MUTATION DID NOT APPLY"; rm -rf $d; exit 3; fi
(cd $d && /venv/bin/python -m pytest -q -p no:cacheprovider tests 2>&1 | tail -1)
cd /verif && ./check $id --repo $d --no-evidence 2>&1 | grep -E 'VIOLATION|tier=|key=' | cut -c1-250 | head -8
rm -rf $d
