#!/bin/sh
# usage: tools/seed_ingest.sh <PROP-ID> <worktree> <name> [extra check ids...]
# Confirms a seeded change from a scratch worktree and stores it under /verif/seeded/<name>/ :
#   tests stay green with the change, demo fails with it and passes without it, then runs the property's check against the worktree.
set -u
id="$1"; wt="$2"; name="$3"; shift 3
dst=/verif/seeded/$name
mkdir -p "$dst"
git -C "$wt" diff > "$dst/patch.diff"
[ -s "$dst/patch.diff" ] || { echo "no diff in $wt"; exit 2; }
demo=$(ls "$wt"/demo_*.py 2>/dev/null | head -1)
[ -n "$demo" ] && cp "$demo" "$dst/" || echo "WARNING: no demo file"
t_with=$(cd "$wt" && /venv/bin/python -m pytest -q -p no:cacheprovider tests 2>&1 | tail -1)
d_with="n/a"; d_without="n/a"
if [ -n "$demo" ]; then
  (cd "$wt" && /venv/bin/python "$(basename $demo)" >/tmp/demo_with.out 2>&1); d_with=$?
  # (no git stash: refs/stash is shared by all worktrees of a repository, concurrent users would swap changes)
  git -C "$wt" apply -R "$dst/patch.diff"
  (cd "$wt" && /venv/bin/python "$(basename $demo)" >/tmp/demo_without.out 2>&1); d_without=$?
  git -C "$wt" apply "$dst/patch.diff"
fi
echo "tests with change : $t_with"
echo "demo with change  : exit $d_with ($(tail -1 /tmp/demo_with.out 2>/dev/null | cut -c1-120))"
echo "demo without      : exit $d_without ($(tail -1 /tmp/demo_without.out 2>/dev/null | cut -c1-120))"
res=""
for c in $id "$@"; do
  out=$(cd /verif && ./check $c --repo "$wt" --no-evidence 2>&1); rc=$?
  nv=$(echo "$out" | grep -c '^VIOLATION')
  echo "check $c: exit $rc, $nv VIOLATION line(s)"
  echo "$out" | grep 'key=' | head -4 | cut -c1-260
  res="$res $c:rc=$rc:violations=$nv"
done
cat > "$dst/meta.json" <<EOM
{
 "breaks_property": "$id",
 "name": "$name",
 "tests_with_change": "$t_with",
 "demo_exit_with_change": "$d_with",
 "demo_exit_without_change": "$d_without",
 "checks_run": "$res",
 "needs_to_manifest": "TODO",
 "ran": "tools/seed_ingest.sh $id $wt $name"
}
EOM
