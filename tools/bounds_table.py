#!/usr/bin/env python3
"""regenerate the 'final shape per check' table of DESIGN.md section 8 from the committed quick-tier evidence and the modules' own RULE text"""
import importlib
import json
import os
import re
import sys

root = os.path.dirname(os.path.dirname(os.path.abspath(__file__)))
sys.path.insert(0, root)
rows = ["| id | level | what is enumerated (the module's RULE; quick → thorough where it says so) | quick tier: cases / distinct non-trivial / states / transitions / -O pass cases / wall |", "|---|---|---|---|"]
for i in range(1, 20):
    pid = "C%02d" % i
    ev = json.load(open(os.path.join(root, "evidence", pid + ".json")))
    mod = importlib.import_module("vf.props." + pid.lower())
    cov = ev["coverage"]
    rule = re.sub(r"\s+", " ", mod.RULE).replace("|", "/")
    extra = cov.get("extra", {}) if isinstance(cov.get("extra"), dict) else {}
    o = extra.get("python_O_evaluations", cov.get("python_O_evaluations", "-"))
    rows.append("| %s | %s | %s | %s / %s / %s / %s / %s / %.0f s |" % (
        pid, ev["level"], rule, cov.get("evaluations"), cov.get("distinct_nontrivial"), cov.get("states", 0), cov.get("transitions", 0), o, ev.get("wall_s", 0)))
table = "\n".join(rows)
p = os.path.join(root, "DESIGN.md")
s = open(p).read()
a, b = "<!-- BOUNDS-TABLE-BEGIN -->", "<!-- BOUNDS-TABLE-END -->"
if a in s:
    s = s[:s.index(a) + len(a)] + "\n" + table + "\n" + s[s.index(b):]
    open(p, "w").write(s)
print(table[:400])
