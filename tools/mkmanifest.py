#!/usr/bin/env python3
"""Regenerate /verif/MANIFEST.json from the property modules that exist (vf/props/cNN.py)."""
import importlib
import json
import os
import sys

ROOT = os.path.dirname(os.path.dirname(os.path.abspath(__file__)))
sys.path.insert(0, ROOT)
ALL = ["C%02d" % i for i in range(1, 20)]
LEVEL_TEXT = {}

checks, na = [], []
for pid in ALL:
    path = os.path.join(ROOT, "vf", "props", pid.lower() + ".py")
    if not os.path.exists(path):
        na.append({"property_id": pid, "reason": "check not built yet (work in progress; the design in DESIGN.md claims it)"})
        continue
    src = open(path).read()
    ns = {}
    # read the module's metadata without importing the repository
    import ast
    tree = ast.parse(src)
    for node in tree.body:
        if isinstance(node, ast.Assign) and len(node.targets) == 1 and isinstance(node.targets[0], ast.Name) \
                and node.targets[0].id in ("ID", "LEVEL", "TECHNIQUE", "RULE", "ASSUMPTIONS", "LEVEL_TEXT", "DESIGN_REF"):
            ns[node.targets[0].id] = ast.literal_eval(node.value)
    checks.append({
        "property_id": pid,
        "quick_cmd": "./check %s --tier quick" % pid,
        "thorough_cmd": "./check %s --tier thorough" % pid,
        "evidence_file": "evidence/%s.json" % pid,
        "replay_cmd_template": "./check %s --replay {path}" % pid,
        "engine": "vf",
        "level_claimed": {
            "category": ns["LEVEL"],
            "text": ns.get("LEVEL_TEXT", ns["TECHNIQUE"]),
            "design_ref": ns.get("DESIGN_REF", "DESIGN.md §2 " + pid),
        },
        "level_note": "; ".join(ns["ASSUMPTIONS"]),
        "technique": ns["TECHNIQUE"],
    })

man = {
    "version": 1,
    "setup_cmd": "./setup.sh",
    "hooks": {
        "guard": "PYSCSI_VERIF",
        "enable": "no source hooks are needed: checks import /repo's working tree directly (sys.path) and close the system by installing stand-in 'sgio'/'iscsi' modules into sys.modules; PYSCSI_VERIF is reserved and unused",
        "baseline_off_cmd": "cd /repo && /venv/bin/python -m pytest -q -p no:cacheprovider --timeout=900 tests",
        "source_commits": [],
        "add_only": True,
    },
    "engines": [{
        "name": "vf",
        "path": "vf/",
        "serves_properties": [c["property_id"] for c in checks],
        "kind_free_text": "hand-written explicit-state / bounded-exhaustive explorers in Python driving the real implementation (no model-to-code gap); independent spec tables as oracle",
    }],
    "checks": checks,
    "not_applicable": na,
    "notes": "All checks: cwd=/verif, ./check <ID> --tier quick|thorough; exit 0 held / 1 VIOLATION / 2 machinery error. known_findings.json lists recorded findings and fixed defects.",
}
if not na:
    man["not_applicable"] = []
with open(os.path.join(ROOT, "MANIFEST.json"), "w") as f:
    json.dump(man, f, indent=1)
print("MANIFEST.json: %d checks, %d not_applicable" % (len(checks), len(na)))
