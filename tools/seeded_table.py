#!/usr/bin/env python3
"""print the markdown table of seeded changes from seeded/*/meta.json (pasted into DESIGN.md section 10)"""
import json
import os
import re

root = os.path.join(os.path.dirname(os.path.dirname(os.path.abspath(__file__))), "seeded")
print("| seeded change | needs, in order to manifest | caught by | run but silent (other properties) |")
print("|---|---|---|---|")
for n in sorted(os.listdir(root)):
    m = json.load(open(os.path.join(root, n, "meta.json")))
    checks = re.findall(r"(C\d\d):rc=(\d):violations=(\d+)", m["checks_run"])
    caught = ", ".join(c for c, rc, v in checks if rc == "1")
    missed = ", ".join(c for c, rc, v in checks if rc != "1")
    print("| %s | %s | %s | %s |" % (n, m["needs_to_manifest"], caught or "—", missed))
