#!/bin/sh
# usage: tools/seed_verify.sh [name-glob]
# Regression of the checks against every stored seeded change: each patch is applied to a scratch worktree of /repo's HEAD
# (never to /repo itself), the property's own check must report a violation (exit 1), the worktree is reset afterwards.
set -u
glob="${1:-*}"
wt=/var/tmp/wt-seedverify-$$
git -C /repo worktree add -q --detach "$wt" HEAD || exit 2
trap 'git -C /repo worktree remove --force "$wt" >/dev/null 2>&1' EXIT INT TERM
ok=0; bad=0
for d in /verif/seeded/$glob/; do
  name=$(basename "$d")
  id=$(jq -r .breaks_property "$d/meta.json")
  if ! git -C "$wt" apply "$d/patch.diff" 2>/dev/null; then
    echo "$name: PATCH DOES NOT APPLY to HEAD"; bad=$((bad+1)); continue
  fi
  t=$(cd "$wt" && /venv/bin/python -m pytest -q -p no:cacheprovider tests 2>&1 | tail -1 | cut -c1-40)
  out=$(cd /verif && ./check "$id" --repo "$wt" --no-evidence 2>&1); rc=$?
  nv=$(echo "$out" | grep -c '^VIOLATION')
  if [ $rc -eq 1 ] && [ "$nv" -gt 0 ]; then ok=$((ok+1)); verdict=caught; else bad=$((bad+1)); verdict="MISSED(rc=$rc)"; fi
  echo "$name: $id $verdict violations=$nv tests=[$t]"
  git -C "$wt" checkout -q -- . ; git -C "$wt" clean -qfd
done
echo "seed_verify: caught=$ok not_caught_or_unapplicable=$bad"
[ $bad -eq 0 ]
