#!/bin/sh
# run every check of a tier and print one summary line each; exit status = number of non-zero exits
# usage: tools/runall.sh [tier] [ids...]   (ids like 01 02 ...; default all)
tier=${1:-quick}; bad=0
[ $# -gt 0 ] && shift
ids="${*:-01 02 03 04 05 06 07 08 09 10 11 12 13 14 15 16 17 18 19}"
cd "$(dirname "$0")/.."
for i in $ids; do
  out=$(./check C$i --tier $tier 2>&1); rc=$?
  echo "$out" | grep -E "^C$i tier=" | sed "s/^/rc=$rc /"
  [ $rc -ne 0 ] && { bad=$((bad+1)); echo "$out" | grep -E 'VIOLATION|MACHINERY' | head -5; }
done
exit $bad
