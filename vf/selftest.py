"""Self-test of the machinery's own tables (run by setup.sh). Never judges the library."""
import sys

from vf.spec import bits


def main():
    # bits.py sanity
    b = bytes(4)
    assert bits.deposit(b, 1, 3, 12, 0xABC) == bytes([0x00, 0x0A, 0xBC, 0x00])
    assert bits.extract(bytes([0x00, 0x0A, 0xBC, 0x00]), 1, 3, 12) == 0xABC
    assert bits.extract(b"\x80", 0, 7, 1) == 1 and bits.extract(b"\x01", 0, 0, 1) == 1
    n = 0
    try:
        from vf.spec import selfcheck
        n = selfcheck.run()
    except ImportError:
        pass
    print("selftest ok (%d table checks)" % n)
    return 0


if __name__ == "__main__":
    sys.exit(main())
