"""C07 - a command that did not complete with GOOD status never looks successful."""
import itertools

from vf import facade as F
from vf import harness
from vf.runner import Acc
from vf.sim import install
from vf.sim.target import desc_sense, fixed_sense

ID = "C07"
OPT_QUICK_ALL = True      # every partition also in a child interpreter started with -O
LEVEL = "model_checking"
TECHNIQUE = "exhaustive enumeration of (status byte x sense x transport x call path x raw flag) at depth 1 and of all status/command histories up to a depth bound on real device objects over stand-in bindings, judged by a status->outcome reference model"
RULE = ("depth 1: all 256 status bytes x {SG_IO, iSCSI} x {device.execute, SCSI.execute} x raw-sense {off,on} x (READ(10) x 9 sense buffers (incl. fixed-format sense shorter than the buffer it arrives in: ADDITIONAL SENSE LENGTH 6 / 10 / 16 in 18 / 32 / 252 bytes) + 7 other commands incl. ATA PASS-THROUGH with/without CK_COND), and all 256 "
        "status bytes (over iSCSI also 12 status values beyond one byte incl. libiscsi's REDIRECT / CANCELLED / ERROR / TIMEOUT pseudo-statuses) x both transports x each of the 38 facade methods on every command set offering it x 2 sense buffers, and CHECK CONDITION x 6 sense keys x 6 additional sense codes (thorough: 16 x 12) x fixed / descriptor format through every facade method; an asynchronous KeyboardInterrupt injected at every source line the library executes during 9 facade calls (incl. both ATA PASS-THROUGH forms and a re-attach), on both transports: passed on as it is, and the next GOOD / CHECK CONDITION on the same objects behave as ever; the same command inside `with device:` / `with SCSI(device):` blocks x 8 statuses x 6 values handed back by the binding's disconnect (the error must leave the block); histories: all "
        "sequences up to length L (3 quick, 4 thorough; steps may also be a transport I/O error, ENODEV, a re-plug with ENODEV, a transport time-out (no status from the target: SG_IO status byte 0 with a host status, reported by the binding as an error carrying both), a KeyboardInterrupt arriving inside the binding - passed on as it is -, or the facade re-pointed by call to another device whose INQUIRY is answered GOOD / CHECK CONDITION / BUSY) over {GOOD, CHECK CONDITION, BUSY, RESERVATION CONFLICT, 7Fh} x {TEST UNIT READY, "
        "READ(10), INQUIRY} on one device per transport, every step judged and every GOOD step's result compared with the target, once with a fresh facade call per step and once with one command object per kind submitted again at every step (retry loop); each CHECK CONDITION step carries its own distinct sense data; later steps also range over ATA PASS-THROUGH(16) facade calls (GOOD / CHECK CONDITION / transport I/O error), a refused ATA call (no block size) and transport errors during TEST UNIT READY (EIO, ENODEV, ENODEV while the node is being replaced). "
        "states = distinct canonical device/facade snapshots reached, transitions = commands executed in histories. Non-trivial = status "
        "other than GOOD somewhere in the execution.")
ASSUMPTIONS = [
    "stand-in bindings mirror cython-sgio (GOOD returns, CHECK CONDITION raises CheckConditionError(.sense), anything else raises UnspecifiedError) and python-libiscsi (task.status / task.raw_sense)",
    "over SG_IO the binding hides the status byte, so for statuses other than GOOD / CHECK CONDITION only 'some exception, never a normal return' is required; over iSCSI the six named statuses must raise the exception class of that name",
    "sense key/ASC/ASCQ of the raised CheckCondition are compared only for current-format sense (70h/72h); other formats are C08's subject",
]
NAMED = {0x04: "ConditionsMet", 0x08: "BusyStatus", 0x18: "ReservationConflict", 0x28: "TaskSetFull", 0x30: "ACAActive", 0x40: "TaskAborted"}
SENSES = {
    "fixed18": (fixed_sense(5, 0x24, 0x00), (5, 0x24, 0x00)),
    "desc8": (desc_sense(6, 0x29, 0x01), (6, 0x29, 0x01)),
    "fixed_nosense": (fixed_sense(0, 0x00, 0x00), (0, 0, 0)),
    "deferred": (fixed_sense(3, 0x11, 0x00, code=0x71), None),
    "long252": (fixed_sense(3, 0x11, 0x04, length=252), (3, 0x11, 0x04)),
    # CHECK CONDITION without autosense data (None over iSCSI, empty over SG_IO): only "some exception, one submission" is required
    "nosense": (None, None),
}


def _padded_fixed(key, asc, ascq, asl, buflen):
    """fixed-format sense whose ADDITIONAL SENSE LENGTH says the data end at byte asl+7, handed over in a longer zero-padded buffer
    (the transport gives the whole sense buffer)"""
    b = bytearray(buflen)
    b[0], b[2], b[7], b[12], b[13] = 0x70, key, asl, asc, ascq
    return bytes(b)


# (ASL 6: the 14-byte sense of small targets and bridges, ends exactly on ASCQ; ASL 10: the usual 18 bytes)
SENSES["fixed14in32"] = (_padded_fixed(2, 0x04, 0x01, 6, 32), (2, 0x04, 0x01))
SENSES["fixed14in18"] = (_padded_fixed(6, 0x29, 0x02, 6, 18), (6, 0x29, 0x02))
SENSES["fixed18in32"] = (_padded_fixed(5, 0x24, 0x03, 10, 32), (5, 0x24, 0x03))
SENSES["fixed24in252"] = (_padded_fixed(3, 0x11, 0x04, 16, 252), (3, 0x11, 0x04))
DIRECT_SENSES = ["fixed18", "desc8", "fixed_nosense", "deferred", "long252", "nosense", "fixed14in32", "fixed14in18", "fixed18in32", "fixed24in252"]


def bounds(tier):
    return {"history_depth": 3 if tier == "quick" else 4}


def partitions(tier):
    parts = []
    for tr in ("sgio", "iscsi"):
        parts.append(["direct", tr])
        parts.append(["with", tr])
        for m in F.FACADE:
            parts.append(["facade", tr, m])
        for first in ("tur", "read10", "inquiry"):
            for st in ("GOOD", "CC", "BUSY", "RC", "7F"):
                parts.append(["hist", tr, first, st])
                parts.append(["rehist", tr, first, st])
        for m in INTERRUPT_METHODS:
            parts.append(["interrupt", tr, m])
    return parts


# ---------------------------------------------------------------------------------
WIDE_STATUS = (0x100, 0x101, 0x102, 0x200, 0x202, 0x10000, 0x0F000000, 0x0F000001, 0x0F000002, 0x7FFFFF00, -1, -256)


def judge(transport, status, sensekind, raw, outcome, cmd, where):
    """outcome = ('ret', value) | ('exc', exception). returns violations"""
    kind, val = outcome
    sense, triple = SENSES[sensekind]
    out = []
    if status == 0x00:
        if kind != "ret":
            out.append(("%s/%s/good_raises" % (transport, where), "GOOD status raised %s: %s" % (type(val).__name__, val)))
        return out
    if status == 0x02 and sense is None:
        if kind == "ret" and not (raw and cmd is not None and cmd.raw_sense_data is not None):
            out.append(("%s/%s/check_condition_returns_normally" % (transport, where), "CHECK CONDITION without sense data returned normally"))
        return out
    if status == 0x02:
        if kind == "ret":
            ok = raw and cmd is not None and cmd.raw_sense_data is not None and bytes(cmd.raw_sense_data) == sense
            if not ok:
                out.append(("%s/%s/check_condition_returns_normally" % (transport, where),
                            "CHECK CONDITION (sense %s) returned normally%s" % (sense[:18].hex(), " without the raw sense attached" if raw else "")))
            return out
        name = type(val).__name__
        from pyscsi.pyscsi.scsi_sense import SCSICheckCondition
        if name != "CheckCondition" or not isinstance(val, SCSICheckCondition):
            out.append(("%s/%s/check_condition_wrong_exception" % (transport, where), "CHECK CONDITION raised %s: %r" % (name, val)))
            return out
        if triple is not None:
            try:
                got = (val.data["sense_key"], val.asc, val.ascq)
            except Exception as e:
                got = "unreadable (%s)" % type(e).__name__
            if got != triple:
                out.append(("%s/%s/check_condition_wrong_sense" % (transport, where),
                            "CheckCondition reports key/asc/ascq %r, target sent %r" % (got, triple)))
            else:
                # what the user reads (str / print of the error) names the same key and code as the fields do
                try:
                    text = str(val)
                except Exception as e:   # noqa: BLE001
                    text = "raised %s" % type(e).__name__
                if ("(0x%02X)" % triple[0]) not in text or ("(0x%02X%02X)" % (triple[1], triple[2])) not in text:
                    out.append(("%s/%s/check_condition_wrong_text" % (transport, where),
                                "the error prints as %r, the target sent key %#04x asc/ascq %#04x/%#04x" % (text, triple[0], triple[1], triple[2])))
        return out
    # any other status
    if kind == "ret":
        out.append(("%s/%s/status_returns_normally" % (transport, where), "status %#04x returned normally" % status))
    elif transport == "iscsi" and status in NAMED and type(val).__name__ != NAMED[status]:
        out.append(("%s/%s/named_status_wrong_exception" % (transport, where),
                    "status %#04x raised %s, expected %s" % (status, type(val).__name__, NAMED[status])))
    return out


def attempt(fn):
    try:
        return ("ret", fn())
    except Exception as e:     # noqa: BLE001 - the outcome is what is judged
        return ("exc", e)


def new_cmd(kind, dev, blocksize=512):
    from pyscsi.pyscsi.scsi_cdb_inquiry import Inquiry
    from pyscsi.pyscsi.scsi_cdb_read10 import Read10
    from pyscsi.pyscsi.scsi_cdb_testunitready import TestUnitReady
    if kind.startswith("ata"):
        from pyscsi.pyscsi.scsi_cdb_atapassthrough12 import ATAPassThrough12
        from pyscsi.pyscsi.scsi_cdb_atapassthrough16 import ATAPassThrough16
        cls, key = (ATAPassThrough16, "ATA_PASS_THROUGH_16") if "16" in kind else (ATAPassThrough12, "ATA_PASS_THROUGH_12")
        return cls(getattr(dev.opcodes, key), 4, 2, 1, 1, 0, 0, 0, 1, 0, 0xEC, ck_cond=1 if kind.endswith("ck") else 0)
    if kind == "write10":
        from pyscsi.pyscsi.scsi_cdb_write10 import Write10
        return Write10(dev.opcodes.WRITE_10, blocksize, 1, 1, bytearray(blocksize))
    if kind == "tur":
        return TestUnitReady(dev.opcodes.TEST_UNIT_READY)
    if kind == "read10":
        return Read10(dev.opcodes.READ_10, blocksize, 1, 1)
    return Inquiry(dev.opcodes.INQUIRY)


INTERRUPT_METHODS = ["testunitready", "inquiry", "read10", "write10", "modesense6", "readcapacity16", "atapassthrough16", "atapassthrough12", "reattach"]


def run_interrupt(tr, method, acc=None, only=None):
    """an asynchronous exception (the user's Ctrl-C) raised at the k-th source line the library executes during one facade call, for
    every k in turn (the exception is injected by the line tracer, i.e. exactly where CPython would deliver it): the caller sees that
    KeyboardInterrupt; afterwards the same facade and device behave as ever - a GOOD command returns after one submission, a CHECK
    CONDITION raises CheckCondition with its sense data (no raw-sense mode left switched on), the SG_IO handle is still the only one"""
    import os
    import sys
    pre = os.path.join(os.environ.get("VF_REPO", "/repo"), "pyscsi") + os.sep
    out = []
    k = 0 if only is None else only
    while True:
        rig = harness.Rig(tr, 0x00)
        rig2 = harness.Rig(tr, 0x00) if method == "reattach" else None
        try:
            s = rig.facade(512)
            fn = {"testunitready": s.testunitready, "inquiry": s.inquiry, "read10": lambda: s.read10(1, 1), "write10": lambda: s.write10(1, 1, bytearray(512)),
                  "modesense6": lambda: s.modesense6(0x0A), "readcapacity16": s.readcapacity16,
                  "atapassthrough16": lambda: s.atapassthrough16(4, 2, 1, 1, 0, 0, 0, 1, 0, 0xEC, ck_cond=1),
                  "atapassthrough12": lambda: s.atapassthrough12(4, 2, 1, 1, 0, 0, 0, 1, 0, 0xEC, ck_cond=1),
                  "reattach": (lambda: s(rig2.dev))}[method]
            state = {"n": 0, "fired": None}
            boom = KeyboardInterrupt()

            def tracer(frame, event, arg):
                if not frame.f_code.co_filename.startswith(pre):
                    return None
                return line_tracer

            def line_tracer(frame, event, arg):
                if event == "line" and state["fired"] is None:
                    if state["n"] == k:
                        state["fired"] = "%s:%d" % (os.path.basename(frame.f_code.co_filename), frame.f_lineno)
                        raise boom
                    state["n"] += 1
                return line_tracer
            sys.settrace(tracer)
            try:
                try:
                    fn()
                    seen = "returned normally"
                except BaseException as e:   # noqa: BLE001
                    seen = e
            finally:
                sys.settrace(None)
            if state["fired"] is None:
                return out, k
            if acc is not None:
                acc.transitions += 3
            where = "%s over %s interrupted at library line #%d (%s)" % (method, tr, k, state["fired"])
            if seen is not boom:
                out.append(("%s/interrupt/not_passed_on" % tr, "%s: the caller saw %r instead of the KeyboardInterrupt" % (where, seen)))
            # ---- afterwards: the same objects, ordinary use
            if method == "reattach":
                s.device = rig.dev
            tgt = rig.target
            del tgt.script[:]
            n0 = len(tgt.log)
            oc = attempt(s.testunitready)
            if oc[0] != "ret" or len(tgt.log) - n0 != 1:
                out.append(("%s/interrupt/next_good_call" % tr, "%s: the next TEST UNIT READY (GOOD) %s, %d submission(s)"
                            % (where, "returned" if oc[0] == "ret" else "raised %s: %s" % (type(oc[1]).__name__, oc[1]), len(tgt.log) - n0)))
            sense = fixed_sense(6, 0x29, 0x02)
            SENSES["intr"] = (sense, (6, 0x29, 0x02))
            tgt.script.append((0x02, sense))
            oc = attempt(s.testunitready)
            out += [(kk, "%s: afterwards, %s" % (where, w)) for kk, w in judge(tr, 0x02, "intr", False, oc, None, "interrupt/next_check_condition")]
            if rig.node is not None and len(rig.node.open_handles()) != 1:
                out.append(("%s/interrupt/handles" % tr, "%s: %d descriptors open on the node afterwards" % (where, len(rig.node.open_handles()))))
        finally:
            rig.close()
            if rig2 is not None:
                rig2.close()
        if out or only is not None:
            return out, k + 1
        k += 1


def run_case(case, obs=None):
    install.ensure()
    mode = case[0]
    if mode == "interrupt":
        return run_interrupt(case[1], case[2], None, case[3])[0]
    if mode == "direct":
        _, tr, path, status, sensekind, raw = case[:6]
        ckind = case[6] if len(case) > 6 else "read10"
        rig = harness.Rig(tr, 0x00)
        try:
            s = rig.facade()
            cmd = new_cmd(ckind, rig.dev)
            rig.target.script.append((status, SENSES[sensekind][0]))
            n0 = len(rig.target.log)
            if path == "dev":
                oc = attempt(lambda: rig.dev.execute(cmd, en_raw_sense=raw))
            else:
                oc = attempt(lambda: s.execute(cmd, en_raw_sense=raw))
            if obs is not None:
                obs.append((oc[0], type(oc[1]).__name__))
            v = judge(tr, status, sensekind, raw, oc, cmd, path)
            if len(rig.target.log) - n0 != 1:
                v.append(("%s/%s/not_sent_once" % (tr, path), "the target saw %d commands" % (len(rig.target.log) - n0)))
            return v
        finally:
            rig.close()
    if mode == "facade":
        _, tr, method, st, status, sensekind = case
        if sensekind.startswith("kx") and sensekind not in SENSES:
            k_, a_, q_ = int(sensekind[3], 16), int(sensekind[4:6], 16), int(sensekind[6:8], 16)
            SENSES[sensekind] = ((fixed_sense if sensekind[2] == "f" else desc_sense)(k_, a_, q_), (k_, a_, q_))
        rig = harness.Rig(tr, F.SET_TO_TYPE[st])
        try:
            s = rig.facade()
            rig.target.script.append((status, SENSES[sensekind][0]))
            raw = method.startswith("atapassthrough")
            n0 = len(rig.target.log)
            oc = attempt(lambda: F.call(s, method))
            if obs is not None:
                obs.append((oc[0], type(oc[1]).__name__))
            cmd = oc[1] if oc[0] == "ret" else None
            v = judge(tr, status, sensekind, raw, oc, cmd, "facade." + method)
            if len(rig.target.log) - n0 != 1:
                v.append(("%s/facade.%s/not_sent_once" % (tr, method), "status %#04x: the target saw %d commands for one facade call"
                          % (status, len(rig.target.log) - n0)))
            return v
        finally:
            rig.close()
    if mode == "with":
        # the command runs inside a `with` block over the device or the facade; whatever close()/disconnect() hands back when the
        # block is left, the error of the failed command must reach the code around the block
        from vf.sim import registry
        _, tr, how, status, dres = case
        rig = harness.Rig(tr, 0x00)
        registry.disconnect_result = dres
        out = []
        try:
            s = rig.facade()
            rig.target.script.append((status, SENSES["fixed18"][0]))
            reached = [False]

            def block():
                if how == "dev":
                    with rig.dev as d:
                        d.execute(new_cmd("tur", d))
                        reached[0] = True
                else:
                    with s as f:
                        f.testunitready()
                        reached[0] = True
                return None
            oc = attempt(block)
            if obs is not None:
                obs.append((oc[0], type(oc[1]).__name__))
            where = "with-%s" % how
            if status != 0x00 and reached[0]:
                out.append(("%s/%s/failed_command_continues" % (tr, where), "status %#04x: the statement after the command inside the block was reached" % status))
            out += judge(tr, status, "fixed18", False, oc, None, where)
            return out
        finally:
            registry.disconnect_result = None
            rig.close()
    if mode in ("hist", "rehist"):
        _, tr, steps = case
        rig = harness.Rig(tr, 0x00)
        try:
            rig.target.disk[1] = b"\x42" * 512
            s = rig.facade()
            out = []
            # rehist: ONE command object per kind, submitted again at every step that names it (the retry loop of a caller)
            reuse = {k: new_cmd(k, rig.dev) for k in ("tur", "read10", "inquiry")} if mode == "rehist" else None
            kept = []            # every CheckCondition raised in this history, with what its target sent and what it printed then
            for i, (ck, stname) in enumerate(steps):
                if ck == "atabad":
                    # a request the facade must refuse before sending (byte_block/t_type need a block size, none given): it raises,
                    # nothing reaches the target - and nothing of it may linger in the facade for the next call
                    n0 = len(rig.target.log)
                    oc = attempt(lambda: s.atapassthrough12(4, 2, 1, 1, 1, 0, 0, 1, 0, 0xEC))
                    if oc[0] != "exc" or len(rig.target.log) != n0:
                        out.append(("%s/history/refused_call" % tr, "step %d of %r: outcome %s, %d commands sent" % (i, steps, oc[0], len(rig.target.log) - n0)))
                    if obs is not None:
                        obs.append(snapshot(rig.dev, s))
                    continue
                if ck == "attach":
                    # the facade is pointed at another device (s(dev2)) whose INQUIRY is answered with this status: the attach is a
                    # command like any other - it returns normally only on GOOD; afterwards the history goes on with the first device
                    status = HSTAT[stname]
                    triple = (2 + i, 0x20 + i, i)
                    hs = fixed_sense(*triple) if i % 2 == 0 else desc_sense(*triple)
                    SENSES["hist"] = (hs, triple)
                    rig2 = harness.Rig(tr, 0x00)
                    try:
                        if status:
                            rig2.target.script.append((status, hs))
                        oc = attempt(lambda: s(rig2.dev))
                        v = judge(tr, status, "hist", False, oc, None, "facade re-pointed by call")
                        out += [(k, "step %d of %r: %s" % (i, steps, w)) for k, w in v]
                    finally:
                        s.device = rig.dev
                        rig2.close()
                    if obs is not None:
                        obs.append(snapshot(rig.dev, s))
                    continue
                if stname == "KBI":
                    # the user's Ctrl-C arrives while the binding works on the command: it is no Exception, it reaches the caller as it
                    # is, and nothing of the interrupted call lingers for the next one
                    err = KeyboardInterrupt()
                    rig.target.script.append((err, None))
                    fn = {"tur": s.testunitready, "ata": lambda: s.atapassthrough16(4, 2, 1, 1, 0, 0, 0, 1, 0, 0xEC, ck_cond=1)}[ck]
                    try:
                        fn()
                        seen = "returned normally"
                    except BaseException as e:   # noqa: BLE001
                        seen = e
                    if seen is not err:
                        out.append(("%s/history/interrupt_not_passed_on" % tr, "step %d of %r: KeyboardInterrupt inside the binding, the caller saw %r" % (i, steps, seen)))
                    del rig.target.script[:]
                    if obs is not None:
                        obs.append(snapshot(rig.dev, s))
                    continue
                if stname == "HOSTERR":
                    # the command times out on the transport: no status from the target (SG_IO: status byte 0 with a host status; the
                    # binding reports it as an error) - the call does not return normally
                    rig.target.script.append(("HOSTERR", None))
                    fn = {"tur": s.testunitready, "read10": lambda: s.read10(1, 1), "ata": lambda: s.atapassthrough16(4, 2, 1, 1, 0, 0, 0, 1, 0, 0xEC, ck_cond=1)}[ck]
                    oc = attempt(fn)
                    if oc[0] != "exc":
                        out.append(("%s/history/transport_timeout_returns_normally" % tr, "step %d of %r: the command timed out on the transport (no status from the target), the call returned normally" % (i, steps)))
                    del rig.target.script[:]
                    if obs is not None:
                        obs.append(snapshot(rig.dev, s))
                    continue
                if stname in ("ERR", "ENODEV", "PLUGERR"):
                    # the binding itself fails (transport I/O error): some exception must reach the caller - also when the node is
                    # replaced at that very moment (the command was in flight when the device went away and came back)
                    err = OSError(5, "Input/output error") if stname == "ERR" else OSError(19, "No such device")
                    if stname == "PLUGERR" and rig.node is not None:
                        def replug_then_fail(e=err):
                            rig.node.plug()
                            return e
                        rig.target.script.append((replug_then_fail, None))
                    else:
                        rig.target.script.append((err, None))
                    fn = {"tur": s.testunitready, "ata": lambda: s.atapassthrough16(4, 2, 1, 1, 0, 0, 0, 1, 0, 0xEC, ck_cond=1)}[ck]
                    oc = attempt(fn)
                    if oc[0] != "exc":
                        out.append(("%s/history/transport_error_returns_normally" % tr, "step %d of %r: the binding raised OSError, the call returned normally" % (i, steps)))
                    del rig.target.script[:]
                    if stname == "PLUGERR" and rig.node is not None:
                        rig.target = rig.node.targets[rig.node.generation]          # the device that is behind the path from now on
                        rig.target.disk[1] = b"\x42" * 512
                    if obs is not None:
                        obs.append(snapshot(rig.dev, s))
                    continue
                status = HSTAT[stname]
                # each step answers with its own sense data, so that an error object re-using another error's state is visible
                triple = (2 + i, 0x20 + i, i)
                hs = fixed_sense(*triple) if i % 2 == 0 else desc_sense(*triple)
                SENSES["hist"] = (hs, triple)
                rig.target.script.append((status, hs))
                fn = {"tur": s.testunitready, "read10": lambda: s.read10(1, 1), "inquiry": s.inquiry,
                      "ata": lambda: s.atapassthrough16(4, 2, 1, 1, 0, 0, 0, 1, 0, 0xEC, ck_cond=1)}[ck]
                if reuse is not None and ck != "ata":
                    def fn(c=reuse[ck]):
                        if c.datain:
                            c.datain[:] = bytes(len(c.datain))
                        s.execute(c)
                        if ck == "inquiry":
                            c.unmarshall()
                        return c
                oc = attempt(fn)
                cmd = oc[1] if oc[0] == "ret" else None
                v = judge(tr, status, "hist", ck == "ata", oc, cmd, "facade." + {"tur": "testunitready", "read10": "read10", "inquiry": "inquiry", "ata": "atapassthrough16"}[ck])
                if status == 0x02 and oc[0] == "exc" and type(oc[1]).__name__ == "CheckCondition":
                    kept.append((i, oc[1], triple, str(oc[1])))
                if status == 0 and oc[0] == "ret":
                    if ck == "read10" and bytes(cmd.datain) != b"\x42" * 512:
                        v.append(("%s/history/good_result_wrong" % tr, "READ(10) after %r returned wrong data" % (steps[:i],)))
                    if ck == "inquiry" and cmd.result.get("peripheral_device_type") != 0:
                        v.append(("%s/history/good_result_wrong" % tr, "INQUIRY after %r decoded wrongly" % (steps[:i],)))
                    if reuse is None and ck != "ata" and (cmd.sense is not None or cmd.raw_sense_data is not None):
                        v.append(("%s/history/stale_sense" % tr, "GOOD command carries sense after %r" % (steps[:i],)))
                out += [(k, "step %d of %r: %s" % (i, steps, w)) for k, w in v]
                if obs is not None:
                    obs.append(snapshot(rig.dev, s))
            for (i, e, triple, text) in kept:
                try:
                    now = (e.data["sense_key"], e.asc, e.ascq)
                except Exception as ex:   # noqa: BLE001
                    now = "unreadable (%s)" % type(ex).__name__
                if now != triple or str(e) != text:
                    out.append(("%s/history/earlier_error_changed" % tr, "history %r: the CheckCondition raised at step %d now reports %r / %r, its target sent %r and it printed %r"
                                % (steps, i, now, str(e), triple, text)))
            return out
        finally:
            rig.close()
    raise ValueError(mode)


HSTAT = {"GOOD": 0x00, "CC": 0x02, "BUSY": 0x08, "RC": 0x18, "7F": 0x7F}


def snapshot(dev, s):
    from pyscsi.pyscsi.scsi_command import SCSICommand
    items = []
    for o in (dev, s):
        for k, v in sorted(vars(o).items()):
            if isinstance(v, (int, str, bool, type(None), bytes)) and k not in ("_file_name", "_ino"):
                items.append((type(o).__name__, k, v))
    items.append(("SCSICommand", "_sense", repr(SCSICommand._sense)))
    items.append(("SCSICommand", "_raw_sense_data", repr(SCSICommand._raw_sense_data)))
    items.append(("opcodes", id(dev.opcodes) == id(harness.opcode_set("sbc"))))
    return tuple(items)


def replay(case):
    return run_case(case)


def run_partition(part, tier, seed):
    install.ensure()
    acc = Acc(seed)
    states = set()

    def do(case, nontrivial):
        acc.case(case, nontrivial=nontrivial, key=repr(case))
        obs = []
        try:
            v = run_case(case, obs)
        except Exception as e:
            import traceback
            v = [("harness_error", "%r: %s" % (case, traceback.format_exc()[-400:]))]
        for k, w in v:
            acc.violation(k, w, case)
        acc.outcome((case[0], tuple(obs), tuple(k for k, _ in v)))
        return obs

    if part[0] == "direct":
        tr = part[1]
        for path in ("dev", "scsi"):
            for status in range(256):
                for sk in DIRECT_SENSES:
                    for raw in (False, True):
                        do(["direct", tr, path, status, sk, raw], status != 0)
                        acc.traces += 1
                        acc.transitions += 1
                # the same through other commands (the transport must not treat any CDB specially): ATA PASS-THROUGH with and
                # without CK_COND, WRITE, TEST UNIT READY, INQUIRY
                for ckind in ("ata16ck", "ata12ck", "ata16", "ata12", "write10", "tur", "inquiry"):
                    for raw in (False, True):
                        do(["direct", tr, path, status, "fixed18", raw, ckind], status != 0)
                        acc.traces += 1
                        acc.transitions += 1
        if tr == "iscsi":
            # the binding hands back the task's status as a C int: libiscsi's own pseudo-statuses for "no status came back"
            # (REDIRECT 101h, CANCELLED F000000h, ERROR F000001h, TIMEOUT F000002h) and other values beyond one byte are no GOOD either
            for path in ("dev", "scsi"):
                for status in WIDE_STATUS:
                    for raw in (False, True):
                        for ckind in (None, "ata16ck", "ata12", "write10", "tur", "inquiry"):
                            do(["direct", tr, path, status, "fixed18", raw] + ([ckind] if ckind else []), True)
                            acc.traces += 1
                            acc.transitions += 1
    elif part[0] == "interrupt":
        _, tr, m = part
        v, npoints = run_interrupt(tr, m, acc)
        acc.add("interruption_points", npoints)
        acc.traces += npoints
        # (one case per partition in the books; a failing point is recorded with its index so that the replay goes straight to it)
        case = ["interrupt", tr, m, npoints - 1 if v else None]
        acc.case(case, nontrivial=True, key=repr(case[:3]))
        for k, w in v:
            acc.violation(k, w, case)
        acc.outcome((tr, m, npoints, tuple(k for k, _ in v)))
    elif part[0] == "with":
        tr = part[1]
        for how in ("dev", "scsi"):
            for status in (0x00, 0x02, 0x08, 0x18, 0x28, 0x30, 0x40, 0x7F):
                for dres in (None, 0, -1, 1, True, "closed"):
                    do(["with", tr, how, status, dres], status != 0)
                    acc.traces += 1
                    acc.transitions += 1
    elif part[0] == "facade":
        _, tr, m = part
        # CHECK CONDITION with every sense key x additional sense codes a maintainer might think "harmless" (recovered error, rounded
        # parameter, failure prediction, no sense, becoming ready, power on, ...), fixed and descriptor format: it is an error all the same
        st0 = F.sets_offering(m)[0]
        full = tier != "quick"
        for key in (range(16) if full else (0x0, 0x1, 0x2, 0x6, 0xB, 0xF)):
            for asc, ascq in (((0x00, 0x00), (0x37, 0x00), (0x5D, 0x00), (0x0B, 0x01), (0x17, 0x01), (0x18, 0x00), (0x04, 0x01), (0x29, 0x00), (0x2A, 0x01), (0x3F, 0x0E), (0x00, 0x06), (0x00, 0x16))
                              if full else ((0x00, 0x00), (0x37, 0x00), (0x5D, 0x00), (0x17, 0x01), (0x04, 0x01), (0x29, 0x00))):
                for fmtc in ("f", "d"):
                    sk = "kx%s%x%02x%02x" % (fmtc, key, asc, ascq)
                    SENSES[sk] = ((fixed_sense if fmtc == "f" else desc_sense)(key, asc, ascq), (key, asc, ascq))
                    do(["facade", tr, m, st0, 0x02, sk], True)
                    acc.traces += 1
                    acc.transitions += 1
        for st in F.sets_offering(m):
            for status in list(range(256)) + (list(WIDE_STATUS) if tr == "iscsi" else []):
                for sk in ("fixed18", "desc8") + (("nosense",) if status == 2 else ()):
                    do(["facade", tr, m, st, status, sk], status != 0)
                    acc.traces += 1
                    acc.transitions += 1
    else:
        mode, tr, first, fst = part
        L = bounds(tier)["history_depth"]
        alpha = [(c, s) for c in ("tur", "read10", "inquiry") for s in HSTAT] + [("ata", "GOOD"), ("ata", "CC"), ("ata", "ERR"), ("atabad", "-"), ("tur", "ERR"), ("tur", "ENODEV"), ("tur", "PLUGERR"), ("tur", "KBI"), ("ata", "KBI"), ("attach", "GOOD"), ("attach", "CC"), ("attach", "BUSY"), ("tur", "HOSTERR"), ("read10", "HOSTERR"), ("ata", "HOSTERR")]
        for n in range(1, L + 1):
            for rest in itertools.product(alpha, repeat=n - 1):
                steps = [(first, fst)] + list(rest)
                obs = do([mode, tr, steps], any(s != "GOOD" for _, s in steps))
                acc.transitions += len(steps)
                acc.traces += 1
                for o in obs:
                    states.add(hash(o))
    acc.stateset |= states
    return acc
