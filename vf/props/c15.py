"""C15 - commands never go through a stale device handle; handles are released."""
import itertools
import os

from vf.runner import Acc
from vf.sim import install, nodes, registry
from vf.sim.target import Target, fixed_sense

ID = "C15"
OPT_QUICK_ALL = True      # every partition also in a child interpreter started with -O
LEVEL = "model_checking"
TECHNIQUE = "explicit enumeration of all event histories (execute / check-condition / replug / unplug / close-failure, then a closing event) up to a depth bound on the real SCSIDevice over real files, in lock-step with a handle reference model; invariant evaluated inside the stand-in binding on every command"
RULE = ("all sequences of up to D events (D=5 quick, 6 thorough) over {execute GOOD, execute CHECK CONDITION, replug (node replaced by a new "
        "inode), unplug, sabotage (next close() of the live handle fails with EBADF), open-fault (the next open() of the device path fails once with EACCES)}, each followed by every closing event {none, close(), "
        "with-block normal exit, with-block exit by exception, SCSI facade with-block exit, exit of a facade that was used for and left another device before, contextlib.ExitStack.push(device), a bare __exit__, two nested with-blocks}, x replug detection {on, off} x {read-only, "
        "read-write}; histories one event shorter also with the device path being a symbolic link to the node that is replaced, with the node being a character special file replaced by one of the same device number, and with the path being a link re-pointed to a node of another name while the old node stays (device object from init_device); histories with an unplug also with the node vanishing as ELOOP (self-referencing link) and ENOTDIR (its directory replaced by a file); histories with a command also with every command executed with en_raw_sense=True (the ATA PASS-THROUGH path); histories without open-fault also over a class derived from SCSIDevice that overrides open() (os.open + os.fdopen, _file and _ino set as the inherited open() does); fork after open (child executes and releases by close / with / facade exit: no descriptor left in the child, the parent goes on and releases its own), detection on / off, read-only / read-write; a second execute() run to completion between two source lines of a first one, at every line (same-thread re-entrancy: signal handler, finalizer, another thread scheduled in between), after 4 prefixes: no command through a stale handle, one handle open afterwards; an asynchronous KeyboardInterrupt at every source line of one execute() after 6 short prefixes (node left alone / replaced / removed and replaced ...): passed on, the next execute uses one handle to the node now at the path and leaves exactly that handle open; plus ISCSIDevice close/with/disconnect histories. states = distinct (reference-model state, observed handle set) "
        "pairs; transitions = events executed on the real device. Non-trivial = history contains replug, unplug or sabotage.")
ASSUMPTIONS = [
    "device nodes are real files under /dev/shm/pyscsi-verif-<pid>/ (real inodes, real open/stat/close); replug = rename of a new file over the path, old inode kept alive by a hard link so inode numbers are never recycled",
    "close failure is produced by closing the descriptor behind the library's back (the library's own file.close() then raises EBADF)",
    "when closing the stale handle fails, both 'error raised, fresh handle open, command not sent' and 'command sent through the fresh handle' are accepted; use of a device after close() is outside the property",
]
EVENTS = ["x", "c", "r", "u", "s", "o"]   # exec good, exec check condition, replug, unplug, sabotage (next close fails), next open() of the path fails once
CLOSERS = ["none", "close", "with_ok", "with_exc", "scsi_exit", "scsi_reuse", "exitstack_push", "bare_exit", "with_nested"]


def bounds(tier):
    return {"depth": 5 if tier == "quick" else 6}


def partitions(tier):
    parts = []
    for detect in (True, False):
        for rw in (False, True):
            for e1 in EVENTS:
                for e2 in EVENTS:
                    parts.append(["sg", detect, rw, e1 + e2])
            parts.append(["sg", detect, rw, ""])
            for e1 in EVENTS:
                parts.append(["sg", detect, rw, e1])
    parts.append(["iscsi"])
    parts.append(["interrupt"])
    parts.append(["reentrant"])
    parts.append(["fork"])
    return parts


class Boom(Exception):
    pass


def fd_device_class():
    """a device class derived from SCSIDevice that opens its node its own way (descriptor flags the built-in open() cannot give, e.g.
    O_NONBLOCK for a drive without medium) and otherwise does what the inherited open() does: sets _file and _ino"""
    import pyscsi.pyscsi.scsi_device as devmod

    class FdDevice(devmod.SCSIDevice):
        def open(self):
            fd = os.open(self._file_name, (os.O_RDWR if self._read_write else os.O_RDONLY) | os.O_NONBLOCK)
            self._file = os.fdopen(fd, "r+b" if self._read_write else "rb", buffering=0)
            self._ino = devmod.get_inode(self._file_name)
    return FdDevice


def run_history(detect, rw, events, closer, obs=None, symlink=False, chr=False, factory=False, vanish="unlink", raw=False, subclass=False):
    """replay one history on a fresh device; returns violations"""
    install.ensure()
    from pyscsi.pyscsi.scsi_cdb_testunitready import TestUnitReady
    from pyscsi.pyscsi.scsi_device import SCSIDevice
    out = []
    seen = []            # (ino used by the binding, ino at path at that moment) per command reaching the binding

    def hook(file, st, cdb, dout, din):
        try:
            cur = os.stat(node.path).st_ino
        except OSError:
            cur = None
        seen.append((st.st_ino, cur))

    node = nodes.Node(lambda g: Target(), symlink=symlink, chr=chr, vanish=vanish)
    registry.sgio_hooks.append(hook)
    dev = None
    import builtins

    import pyscsi.pyscsi.scsi_device as devmod
    armed = [False]

    def failing_open(file, *a, **k):
        # the library's module-level name 'open' (harness-side, removed again below): fails once with EACCES when armed, as a node
        # whose permissions udev has not set yet does
        if armed[0] and file == node.path:
            armed[0] = False
            raise PermissionError(13, "Permission denied", file)
        return builtins.open(file, *a, **k)
    try:
        if factory:
            from pyscsi.utils import init_device
            dev = init_device(node.path, rw)          # (detection is on by default)
        elif subclass:
            dev = fd_device_class()(node.path, rw, detect)
        else:
            dev = SCSIDevice(node.path, rw, detect)
        devmod.open = failing_open
        # reference model
        m = {"present": True, "gen": 1, "hgen": 1, "sab": False, "closed": False}
        fl = dev._file if hasattr(dev, "_file") else None
        want_mode = "rb+" if rw else "rb"
        for i, ev in enumerate(events):
            where = "event %d (%s) of %r detect=%s" % (i, ev, events, detect)
            if ev == "r":
                node.plug()
                m["present"], m["gen"] = True, node.generation
            elif ev == "u":
                if not m["present"]:
                    continue
                node.unplug()
                m["present"] = False
            elif ev == "s":
                hs = node.open_handles()
                if m["sab"] or len(hs) != 1 or armed[0]:
                    continue
                os.close(hs[0][0])
                m["sab"] = True
            elif ev == "o":
                if m["sab"] or armed[0]:
                    continue
                armed[0] = True
            else:
                tgt = node.targets[node.generation]
                if ev == "c":
                    for t in node.targets.values():
                        t.script[:] = [(0x02, fixed_sense(5, 0x24, 0))]
                else:
                    for t in node.targets.values():
                        t.script[:] = []
                n0 = len(seen)
                cmd = TestUnitReady(dev.opcodes.TEST_UNIT_READY)
                was_armed = armed[0]
                try:
                    if raw:
                        # the way ATA PASS-THROUGH is executed: sense data handed back on the command instead of raised
                        dev.execute(cmd, en_raw_sense=True)
                        if ev == "c" and not getattr(cmd, "raw_sense_data", None):
                            out.append(("raw_sense_lost", "%s: CHECK CONDITION with en_raw_sense=True: no raw_sense_data on the command" % where))
                    else:
                        dev.execute(cmd)
                    oc = ("ret", None)
                except Exception as e:   # noqa: BLE001
                    oc = ("exc", e)
                fired = was_armed and not armed[0]
                sent = seen[n0:]
                # ---- invariant: whatever reached the binding used the handle the model prescribes
                if detect:
                    for used, cur in sent:
                        if cur is None or used != cur:
                            out.append(("stale_handle_used", "%s: command sent through inode of generation %s while the path holds generation %s"
                                        % (where, node.generation_of(used), node.generation_of(cur) if cur else "none (unplugged)")))
                else:
                    for used, cur in sent:
                        if node.generation_of(used) != 1:
                            out.append(("original_handle_not_kept", "%s: detection off but generation %s handle used" % (where, node.generation_of(used))))
                if len(sent) > 1:
                    out.append(("sent_twice", "%s: command reached the binding %d times" % (where, len(sent))))
                # ---- expected outcome per reference model
                if detect and not m["present"]:
                    if oc[0] != "exc" or not isinstance(oc[1], OSError) or sent:
                        out.append(("vanished_node_not_reported", "%s: node absent, outcome %s, sent=%d" % (where, _oc(oc), len(sent))))
                elif detect and m["hgen"] != m["gen"]:
                    if fired:
                        # the open of the new node failed: the caller must see that error, nothing may have been sent, no handle is left;
                        # the next command tries again
                        if oc[0] != "exc" or not isinstance(oc[1], OSError) or sent:
                            out.append(("failed_open_not_reported", "%s: opening the new node failed, outcome %s, sent=%d" % (where, _oc(oc), len(sent))))
                        m["closed"] = True
                    elif m["sab"]:
                        # close of the stale handle fails: error or success both fine, but the fresh handle must now be open
                        if oc[0] == "exc" and not isinstance(oc[1], OSError):
                            out.append(("close_failure_wrong_error", "%s: outcome %s" % (where, _oc(oc))))
                        if oc[0] == "ret" and len(sent) != 1:
                            out.append(("returned_without_sending", "%s" % where))
                    else:
                        out += _expect_sent("x" if raw else ev, oc, sent, where)
                    if not fired:
                        m["hgen"], m["sab"], m["closed"] = m["gen"], False, False
                        hs = node.open_handles()
                        if [g for _, g in hs] != [m["gen"]]:
                            out.append(("fresh_handle_not_open_or_stale_leaked", "%s: open handles by generation %r, expected exactly [%d]"
                                        % (where, [g for _, g in hs], m["gen"])))
                else:
                    if m["sab"]:
                        if oc[0] != "exc" or sent:
                            out.append(("dead_handle_looks_fine", "%s: handle closed behind the library, outcome %s sent=%d" % (where, _oc(oc), len(sent))))
                    else:
                        out += _expect_sent("x" if raw else ev, oc, sent, where)
            # ---- after every event: handle population agrees with the model
            hs = [g for _, g in node.open_handles()]
            want = [] if (m["sab"] or m["closed"]) else [m["hgen"]]
            if hs != want:
                out.append(("handle_population", "%s: open handles (by generation) %r, model expects %r" % (where, hs, want)))
            if obs is not None:
                obs.append((m["present"], m["hgen"] == m["gen"], m["sab"], m["closed"], armed[0], tuple(hs and [hs[0] == m["gen"]])))
        # open mode of the live handle
        if not m["sab"] and hasattr(dev, "_file") and dev._file is not None and not dev._file.closed:
            if dev._file.mode != want_mode:
                out.append(("open_mode", "handle opened with mode %r, expected %r" % (dev._file.mode, want_mode)))
        # ---- closing event
        err = None
        try:
            if closer == "close":
                dev.close()
            elif closer == "with_ok":
                with dev:
                    pass
            elif closer == "with_exc":
                try:
                    with dev:
                        raise Boom()
                except Boom:
                    pass
            elif closer == "exitstack_push":
                # contextlib's way for objects that were acquired by construction: only __exit__ is ever called
                import contextlib
                with contextlib.ExitStack() as stack:
                    stack.push(dev)
            elif closer == "bare_exit":
                dev.__exit__(None, None, None)
            elif closer == "with_nested":
                with dev:
                    with dev:
                        pass
            elif closer == "scsi_exit":
                from pyscsi.pyscsi.scsi import SCSI
                s = SCSI(None)
                s.device = dev
                s.__exit__(None, None, None)
            elif closer == "scsi_reuse":
                # a facade that has already been used for - and left - another device is pointed at this one and left again
                from pyscsi.pyscsi.scsi import SCSI
                other = nodes.Node(lambda g: Target())
                try:
                    odev = SCSIDevice(other.path, rw, detect)
                    s = SCSI(None)
                    s.device = odev
                    with s:
                        pass
                    if other.open_handles():
                        out.append(("handle_not_released", "the facade's first device was not released on leaving the with block"))
                    s.device = dev
                    with s:
                        pass
                finally:
                    for fd, _ in other.open_handles():
                        os.close(fd)
                    other.destroy()
        except Exception as e:  # noqa: BLE001
            err = e
        if closer != "none":
            left = node.open_handles()
            if left:
                out.append(("handle_not_released", "after %r + %s: descriptors still open: %r" % (events, closer, left)))
            if err is not None and not m["sab"]:
                out.append(("close_raises", "after %r: %s raised %s: %s" % (events, closer, type(err).__name__, err)))
            if err is None and not m["sab"]:
                # released exactly once: a second close() is harmless and must not disturb other descriptors
                probe = os.open(node.keep_path(1), os.O_RDONLY)
                try:
                    dev.close()
                except Exception:
                    pass
                try:
                    os.fstat(probe)
                except OSError:
                    out.append(("released_twice", "after %r + %s: a further close() closed an unrelated descriptor" % (events, closer)))
                else:
                    os.close(probe)
    finally:
        registry.sgio_hooks.remove(hook)
        if "open" in vars(devmod):
            del devmod.open
        # release whatever is left so the next history starts clean
        for fd, _ in node.open_handles():
            try:
                os.close(fd)
            except OSError:
                pass
        if dev is not None and getattr(dev, "_file", None) is not None:
            try:
                dev._file.close()
            except Exception:
                pass
        node.destroy()
    return out


def run_interrupt(detect, rw, pre, acc=None, only=None):
    """an asynchronous KeyboardInterrupt at the k-th source line the library executes during one execute() (for every k), the node
    having been replaced / removed-and-replaced / left alone before: the interrupt reaches the caller; the NEXT execute goes through a
    handle to the node now at the path, exactly once, and afterwards exactly that one handle is open (nothing stale, nothing leaked)"""
    import sys
    install.ensure()
    from pyscsi.pyscsi.scsi_cdb_testunitready import TestUnitReady
    from pyscsi.pyscsi.scsi_device import SCSIDevice
    import pyscsi.pyscsi.scsi_device as devmod
    pre_path = os.path.dirname(os.path.dirname(devmod.__file__)) + os.sep
    out = []
    k = 0 if only is None else only
    while True:
        seen = []
        node = nodes.Node(lambda g: Target())

        def hook(file, st, cdb, dout, din):
            try:
                cur = os.stat(node.path).st_ino
            except OSError:
                cur = None
            seen.append((st.st_ino, cur))
        registry.sgio_hooks.append(hook)
        dev = None
        try:
            dev = SCSIDevice(node.path, rw, detect)
            for ev in pre:
                if ev == "r":
                    node.plug()
                elif ev == "u":
                    node.unplug()
                elif ev == "x":
                    dev.execute(TestUnitReady(dev.opcodes.TEST_UNIT_READY))
            state = {"n": 0, "fired": None}
            boom = KeyboardInterrupt()

            def tracer(frame, event, arg):
                if not frame.f_code.co_filename.startswith(pre_path):
                    return None
                return line_tracer

            def line_tracer(frame, event, arg):
                if event == "line" and state["fired"] is None:
                    if state["n"] == k:
                        state["fired"] = "%s:%d" % (os.path.basename(frame.f_code.co_filename), frame.f_lineno)
                        raise boom
                    state["n"] += 1
                return line_tracer
            sys.settrace(tracer)
            try:
                try:
                    dev.execute(TestUnitReady(dev.opcodes.TEST_UNIT_READY))
                    got = "returned normally"
                except BaseException as e:   # noqa: BLE001
                    got = e
            finally:
                sys.settrace(None)
            if state["fired"] is None:
                return out, k
            if acc is not None:
                acc.transitions += 2
            where = "execute after %r (detect=%s, %s) interrupted at library line #%d (%s)" % (pre, detect, "read-write" if rw else "read-only", k, state["fired"])
            if got is not boom:
                out.append(("interrupt/not_passed_on", "%s: the caller saw %r" % (where, got)))
            n0 = len(seen)
            try:
                dev.execute(TestUnitReady(dev.opcodes.TEST_UNIT_READY))
                oc = "returned"
            except Exception as e:   # noqa: BLE001
                oc = "raised %s: %s" % (type(e).__name__, e)
            sent = seen[n0:]
            want_gen = node.generation if detect else 1
            if oc != "returned" or len(sent) != 1:
                out.append(("interrupt/next_execute", "%s: the next execute %s, %d submission(s)" % (where, oc, len(sent))))
            elif node.generation_of(sent[0][0]) != want_gen:
                out.append(("interrupt/stale_handle_used", "%s: the next execute went through the handle of generation %s, the node at the path is generation %s"
                            % (where, node.generation_of(sent[0][0]), node.generation)))
            hs = [g for _, g in node.open_handles()]
            if hs != [want_gen]:
                out.append(("interrupt/handle_population", "%s: after the next execute the open handles (by generation) are %r, expected [%d]" % (where, hs, want_gen)))
        finally:
            registry.sgio_hooks.remove(hook)
            for fd, _ in node.open_handles():
                try:
                    os.close(fd)
                except OSError:
                    pass
            if dev is not None and getattr(dev, "_file", None) is not None:
                try:
                    dev._file.close()
                except Exception:   # noqa: BLE001
                    pass
            node.destroy()
        if out or only is not None:
            return out, k + 1
        k += 1


def run_reentrant(detect, rw, pre, acc=None, only=None):
    """same-thread re-entrancy on ONE device (a signal handler, a finalizer, or another thread scheduled in between): a second execute()
    runs to completion between two source lines of a first execute(), at every line in turn, the node having been replaced before (or
    not): every command that reaches the binding goes through a handle to the node now at the path (detection on) / the original handle
    (detection off), and afterwards exactly one handle is open"""
    import sys
    install.ensure()
    from pyscsi.pyscsi.scsi_cdb_testunitready import TestUnitReady
    from pyscsi.pyscsi.scsi_device import SCSIDevice
    import pyscsi.pyscsi.scsi_device as devmod
    pre_path = os.path.dirname(os.path.dirname(devmod.__file__)) + os.sep
    out = []
    k = 0 if only is None else only
    while True:
        seen = []
        node = nodes.Node(lambda g: Target())

        def hook(file, st, cdb, dout, din):
            try:
                cur = os.stat(node.path).st_ino
            except OSError:
                cur = None
            seen.append((st.st_ino, cur))
        registry.sgio_hooks.append(hook)
        dev = None
        try:
            dev = SCSIDevice(node.path, rw, detect)
            for ev in pre:
                if ev == "r":
                    node.plug()
                elif ev == "x":
                    dev.execute(TestUnitReady(dev.opcodes.TEST_UNIT_READY))
            state = {"n": 0, "fired": None, "inner": None}
            n0 = len(seen)

            def tracer(frame, event, arg):
                if not frame.f_code.co_filename.startswith(pre_path):
                    return None
                return line_tracer

            def line_tracer(frame, event, arg):
                if event == "line" and state["fired"] is None:
                    if state["n"] == k:
                        state["fired"] = "%s:%d" % (os.path.basename(frame.f_code.co_filename), frame.f_lineno)
                        sys.settrace(None)
                        try:
                            dev.execute(TestUnitReady(dev.opcodes.TEST_UNIT_READY))
                            state["inner"] = "returned"
                        except Exception as e:   # noqa: BLE001
                            state["inner"] = "raised %s: %s" % (type(e).__name__, e)
                        finally:
                            sys.settrace(tracer)
                    state["n"] += 1
                return line_tracer
            sys.settrace(tracer)
            try:
                try:
                    dev.execute(TestUnitReady(dev.opcodes.TEST_UNIT_READY))
                    outer = "returned"
                except Exception as e:   # noqa: BLE001
                    outer = "raised %s: %s" % (type(e).__name__, e)
            finally:
                sys.settrace(None)
            if state["fired"] is None:
                return out, k
            if acc is not None:
                acc.transitions += 2
            where = ("execute after %r (detect=%s, %s) with a second execute run to completion at its library line #%d (%s)"
                     % (pre, detect, "read-write" if rw else "read-only", k, state["fired"]))
            want_gen = node.generation if detect else 1
            for used, cur in seen[n0:]:
                if node.generation_of(used) != want_gen:
                    out.append(("reentrant/stale_handle_used", "%s: a command went through the handle of generation %s, the node at the path is generation %s"
                                % (where, node.generation_of(used), node.generation)))
                    break
            if (outer, state["inner"]) != ("returned", "returned") or len(seen) - n0 != 2:
                out.append(("reentrant/outcome", "%s: outer %s, inner %s, %d submissions" % (where, outer, state["inner"], len(seen) - n0)))
            import gc
            gc.collect()
            hs = [g for _, g in node.open_handles()]
            if hs != [want_gen]:
                out.append(("reentrant/handle_population", "%s: afterwards the open handles (by generation) are %r, expected [%d]" % (where, hs, want_gen)))
        finally:
            registry.sgio_hooks.remove(hook)
            for fd, _ in node.open_handles():
                try:
                    os.close(fd)
                except OSError:
                    pass
            if dev is not None and getattr(dev, "_file", None) is not None:
                try:
                    dev._file.close()
                except Exception:   # noqa: BLE001
                    pass
            node.destroy()
        if out or only is not None:
            return out, k + 1
        k += 1


def run_fork(detect, rw, closer):
    """the device is opened, then the process forks (a worker started with the fork start method): the child uses the device and
    releases it (close() / leaving a with block, normally or by exception) - in the CHILD no descriptor of the node stays open; the
    parent goes on using its own handle and releases it in its turn"""
    import pickle
    install.ensure()
    from pyscsi.pyscsi.scsi_cdb_testunitready import TestUnitReady
    from pyscsi.pyscsi.scsi_device import SCSIDevice
    node = nodes.Node(lambda g: Target())
    dev = SCSIDevice(node.path, rw, detect)
    out = []
    try:
        r, w = os.pipe()
        pid = os.fork()
        if pid == 0:
            res = []
            try:
                os.close(r)
                try:
                    dev.execute(TestUnitReady(dev.opcodes.TEST_UNIT_READY))
                    if closer == "close":
                        dev.close()
                    elif closer == "with_ok":
                        with dev:
                            pass
                    elif closer == "with_exc":
                        try:
                            with dev:
                                raise Boom()
                        except Boom:
                            pass
                    else:
                        from pyscsi.pyscsi.scsi import SCSI
                        s = SCSI(None)
                        s.device = dev
                        s.__exit__(None, None, None)
                    res = [g for _, g in node.open_handles()]
                except BaseException as e:   # noqa: BLE001
                    res = "raised %s: %s" % (type(e).__name__, e)
                with os.fdopen(w, "wb") as f:
                    f.write(pickle.dumps(res))
            finally:
                os._exit(0)
        os.close(w)
        with os.fdopen(r, "rb") as f:
            data = f.read()
        os.waitpid(pid, 0)
        left = pickle.loads(data) if data else "child died"
        where = "fork after open (detect=%s, %s), child: execute + %s" % (detect, "read-write" if rw else "read-only", closer)
        if left != []:
            out.append(("fork/child_handle_not_released", "%s: in the child %s" % (where, "descriptors of the node still open: %r" % (left,) if isinstance(left, list) else left)))
        try:
            dev.execute(TestUnitReady(dev.opcodes.TEST_UNIT_READY))
        except Exception as e:   # noqa: BLE001
            out.append(("fork/parent_broken", "%s: afterwards the parent's execute raised %s: %s" % (where, type(e).__name__, e)))
        dev.close()
        if node.open_handles():
            out.append(("fork/parent_handle_not_released", "%s: after the parent's close() descriptors are still open" % where))
    finally:
        for fd, _ in node.open_handles():
            try:
                os.close(fd)
            except OSError:
                pass
        node.destroy()
    return out


def _oc(oc):
    return "returned" if oc[0] == "ret" else "raised %s(%s)" % (type(oc[1]).__name__, oc[1])


def _expect_sent(ev, oc, sent, where):
    out = []
    if len(sent) != 1:
        out.append(("not_sent", "%s: command reached the binding %d times, outcome %s" % (where, len(sent), _oc(oc))))
    if ev == "x" and oc[0] != "ret":
        out.append(("good_raises", "%s: outcome %s" % (where, _oc(oc))))
    if ev == "c" and (oc[0] != "exc" or type(oc[1]).__name__ != "CheckCondition"):
        out.append(("check_condition_lost", "%s: outcome %s" % (where, _oc(oc))))
    return out


def run_iscsi(seq, obs=None):
    """seq: list of 'x' (execute), then closer"""
    install.ensure()
    from pyscsi.pyiscsi.iscsi_device import ISCSIDevice
    from pyscsi.pyscsi.scsi_cdb_testunitready import TestUnitReady
    events, closer = seq
    out = []
    t = Target()
    registry.by_url[("p", "t15", 0)] = t
    del registry.contexts[:]
    try:
        dev = ISCSIDevice("iscsi://p/t15/0", "iqn.verif")
        for ev in events:
            t.script[:] = [(0x02, fixed_sense(5, 0x24, 0))] if ev == "c" else []
            try:
                dev.execute(TestUnitReady(dev.opcodes.TEST_UNIT_READY))
            except Exception:
                pass
        if closer == "close":
            dev.close()
        elif closer == "with_ok":
            with dev:
                pass
        elif closer == "with_exc":
            try:
                with dev:
                    raise Boom()
            except Boom:
                pass
        elif closer == "exitstack_push":
            import contextlib
            with contextlib.ExitStack() as stack:
                stack.push(dev)
        elif closer == "bare_exit":
            dev.__exit__(None, None, None)
        elif closer == "scsi_exit":
            from pyscsi.pyscsi.scsi import SCSI
            s = SCSI(None)
            s.device = dev
            s.__exit__(None, None, None)
        elif closer == "scsi_reuse":
            from pyscsi.pyscsi.scsi import SCSI

            class Other(object):
                closed = 0

                def close(self):
                    self.closed += 1
            s = SCSI(None)
            s.device = Other()
            with s:
                pass
            if s.device.closed != 1:
                out.append(("iscsi/first_device", "the facade's first device was closed %d times" % s.device.closed))
            s.device = dev
            with s:
                pass
        ctxs = list(registry.contexts)
        if len(ctxs) != 1:
            out.append(("iscsi/contexts", "%d contexts created" % len(ctxs)))
        want = 0 if closer == "none" else 1
        n = sum(c.disconnects for c in ctxs)
        if n != want:
            out.append(("iscsi/disconnect_count", "%r + %s: disconnect called %d times, expected %d" % (events, closer, n, want)))
        if obs is not None:
            obs.append((n, len(t.log)))
    finally:
        registry.by_url.pop(("p", "t15", 0), None)
    return out


def run_case(case, obs=None):
    if case[0] == "interrupt":
        return run_interrupt(case[1], case[2], case[3], None, case[4])[0]
    if case[0] == "reentrant":
        return run_reentrant(case[1], case[2], case[3], None, case[4])[0]
    if case[0] == "fork":
        return run_fork(case[1], case[2], case[3])
    if case[0] == "sg":
        _, detect, rw, events, closer = case[:5]
        kind = case[5] if len(case) > 5 else 0
        return run_history(detect, rw, events, closer, obs, symlink=(kind == 1) or ("repoint" if kind == 3 else False), chr=kind == 2, factory=kind == 3,
                           vanish={4: "eloop", 5: "enotdir"}.get(kind, "unlink"), raw=kind == 6, subclass=kind == 7)
    return run_iscsi(case[1], obs)


def replay(case):
    return run_case(case)


def run_partition(part, tier, seed):
    install.ensure()
    acc = Acc(seed)
    D = bounds(tier)["depth"]

    def do(case, nontrivial, nev):
        acc.case(case, nontrivial=nontrivial, key=repr(case))
        obs = []
        try:
            v = run_case(case, obs)
        except Exception:
            import traceback
            v = [("harness_error", traceback.format_exc()[-600:])]
        for k, w in v:
            acc.violation(k, w, case)
        acc.outcome((tuple(obs), tuple(k for k, _ in v)))
        for o in obs:
            acc.stateset.add(hash(o))
        acc.transitions += nev + 1
        acc.traces += 1

    if part[0] == "fork":
        for detect in (True, False):
            for rw in (False, True):
                for closer in ("close", "with_ok", "with_exc", "scsi_exit"):
                    case = ["fork", detect, rw, closer]
                    acc.case(case, nontrivial=True, key=repr(case))
                    try:
                        v = run_fork(detect, rw, closer)
                    except Exception:
                        import traceback
                        v = [("harness_error", traceback.format_exc()[-600:])]
                    for k, w in v:
                        acc.violation(k, w, case)
                    acc.outcome((repr(case), tuple(k for k, _ in v)))
                    acc.transitions += 4
                    acc.traces += 1
        return acc
    if part[0] == "reentrant":
        for detect in (True, False):
            for rw in (False, True):
                for pre in ("", "r", "xr", "rr"):
                    v, npoints = run_reentrant(detect, rw, pre, acc)
                    acc.add("reentrancy_points", npoints)
                    acc.traces += npoints
                    case = ["reentrant", detect, rw, pre, npoints - 1 if v else None]
                    acc.case(case, nontrivial=True, key=repr(case[:4]))
                    for k, w in v:
                        acc.violation(k, w, case)
                    acc.outcome(("re", detect, rw, pre, npoints, tuple(k for k, _ in v)))
        return acc
    if part[0] == "interrupt":
        for detect in (True, False):
            for rw in (False, True):
                for pre in ("", "r", "xr", "ur", "rr", "xrx"):
                    v, npoints = run_interrupt(detect, rw, pre, acc)
                    acc.add("interruption_points", npoints)
                    acc.traces += npoints
                    case = ["interrupt", detect, rw, pre, npoints - 1 if v else None]
                    acc.case(case, nontrivial=True, key=repr(case[:4]))
                    for k, w in v:
                        acc.violation(k, w, case)
                    acc.outcome((detect, rw, pre, npoints, tuple(k for k, _ in v)))
        return acc
    if part[0] == "iscsi":
        for n in range(0, 4):
            for evs in itertools.product("xc", repeat=n):
                for closer in [c for c in CLOSERS if c != "with_nested"]:
                    do(["iscsi", ["".join(evs), closer]], bool(evs), n)
        return acc
    _, detect, rw, prefix = part
    if len(prefix) < 2:
        suffixes = [""]
    else:
        suffixes = ["".join(t) for n in range(0, D - 1) for t in itertools.product(EVENTS, repeat=n)]
    for suf in suffixes:
        events = prefix + suf
        for closer in CLOSERS:
            if closer in ("exitstack_push", "bare_exit", "with_nested") and len(events) > 3:
                continue          # (the unpaired / nested exits after histories of up to 3 events)
            do(["sg", detect, rw, events, closer], any(e in events for e in "ruso"), len(events))
        # the same history with the device addressed through a symbolic link to the node (as /dev/disk/by-id/ paths are)
        if len(events) <= D - 1:
            do(["sg", detect, rw, events, "close", 1], any(e in events for e in "ruso"), len(events))
            # ... and with the node being a character special file whose replacement has the same device number (as a re-plugged /dev/sgN has)
            if nodes.chr_supported():
                do(["sg", detect, rw, events, "close", 2], any(e in events for e in "ruso"), len(events))
            else:
                acc.extra["character_special_nodes"] = ["not available in this environment (mknod refused): histories over character special files skipped"]
            # ... and with the device path being a link that is RE-POINTED to a node of another name (the old node stays in place and
            # belongs to another device now), the device object obtained through pyscsi.utils.init_device
            if detect:
                do(["sg", detect, rw, events, "close", 3], any(e in events for e in "ruso"), len(events))
            # ... and with other ways for the node to vanish: its name becomes a self-referencing link (ELOOP), its directory a plain file (ENOTDIR)
            # ... and with every command executed the way ATA PASS-THROUGH is (en_raw_sense=True)
            if any(e in events for e in "xc"):
                do(["sg", detect, rw, events, "close", 6], any(e in events for e in "ruso"), len(events))
            # ... and with a device class derived from SCSIDevice that overrides open() (handle made from a descriptor)
            if "o" not in events:
                do(["sg", detect, rw, events, "close", 7], any(e in events for e in "rus"), len(events))
            if "u" in events:
                do(["sg", detect, rw, events, "close", 4], True, len(events))
                do(["sg", detect, rw, events, "close", 5], True, len(events))
    return acc
