"""C12 - data written through the library is read back intact from a conformant target, on both transports."""
import collections

from vf import harness
from vf.runner import Acc
from vf.sim import install

ID = "C12"
LEVEL = "model_checking"
TECHNIQUE = "breadth-first explicit-state search over write / write-same / sync histories through the real facade against a simulated conformant block target, SG_IO and iSCSI in lock-step, disk state de-duplicated, every state read back in full and compared with a dict reference model"
RULE = ("events: write10/12/16 and writesame10/16 (incl. unmap, anchor, ndob) over LBAs {0,1,2^32-2,2^32-1 | 2^32, 2^40+3, 2^63+5, 2^64-2, 2^64-1 (16-byte forms)} x "
        "transfer lengths {0,1,2} x payloads {A,B} plus one all-flags variant per command and one write per payload container kind (bytes, writable / read-only memoryview window at a non-zero offset of a larger buffer, anonymous mmap fresh / filled through write() with its position at the end), WRITE SAME with block counts 0xFFFF / 0x10000 / 0x10003 / 0xFFFFFFFF, synchronizecache10/16; BFS to depth 2 (quick) / 3 "
        "(thorough) de-duplicating on disk content, per block size in {512, 4096}; each history is replayed from scratch through the facade on a "
        "fresh SG_IO device and a fresh iSCSI device. In every state every read form (read10/12/16, lengths 1..2, one all-flags variant) over every "
        "touched LBA and its neighbours, READ CAPACITY(10/16) and INQUIRY are compared with the model and across transports. two threads sharing one facade (a refused WRITE(10) and a READ(10)): all schedules with at most 1 preemption at every source line of the library and at most 2 at the lines of the device and facade modules, each thread sees its own command's outcome. After a re-plug, a second command issued on the same SG_IO device between two source lines of the first (every line, 3 prefixes, read-only / read-write): none reaches the unit that was unplugged. Block targets reporting a device type the facade does not list (0Eh, 14h) with the SBC table assigned to the device by the caller before / after / before and after attaching, 9 histories x both block sizes x both transports, read back in full. write / re-point the device path (a link) to another disk / write / read / INQUIRY through init_device and SCSIDevice. states = distinct "
        "disk contents, transitions = write-type events applied.")
ASSUMPTIONS = [
    "the target (vf/sim/target.py) decodes CDBs with the oracle's own tables and stores blocks from the data-out buffer it is handed; the reference model is a dict updated from the *arguments* of the facade calls",
    "WRITE SAME block counts start at 1 (0 means 'to the end of the medium' only on some targets); transfers are within the medium",
    "state = disk content: the library keeps no per-LBA state, so histories reaching the same content have the same futures (one representative history per state is extended)",
]
BIG = 1 << 64
PAT = {"A": 0xA1, "B": 0xB2}


def bounds(tier):
    return {"depth": 2 if tier == "quick" else 3}


def events():
    ev = []
    l32 = [0, 1, (1 << 32) - 2, (1 << 32) - 1]
    l64 = [0, 1, (1 << 32) - 1, 1 << 32, (1 << 40) + 3, (1 << 63) + 5, BIG - 2, BIG - 1]
    for cmd, lbas in (("write10", l32), ("write12", l32), ("write16", l64)):
        for lba in lbas:
            for tl in (0, 1, 2):
                if lba + tl > BIG or (cmd != "write16" and lba + tl > (1 << 32)):
                    continue
                for p in PAT:
                    ev.append((cmd, lba, tl, p, ()))
        ev.append((cmd, 1, 1, "B", (("dpo", 1), ("fua", 1), ("wrprotect", 5), ("group", 0x15))))
        # the payload handed over in other containers: bytes, a writable memoryview window into a larger bytearray, a read-only
        # memoryview window into a larger bytes object (zero-copy chunking of an image), each window starting at a non-zero offset
        for kind in ("bytes", "mvw", "mvr", "mmap", "mmapend"):
            ev.append((cmd, 2, 2, "B", (("_buf", kind),)))
    for cmd, lbas in (("writesame10", l32), ("writesame16", l64)):
        for lba in lbas:
            for nb in (1, 2):
                if lba + nb > BIG or (cmd == "writesame10" and lba + nb > (1 << 32)):
                    continue
                ev.append((cmd, lba, nb, "A", ()))
        ev.append((cmd, 0, 2, "B", (("unmap", 1), ("anchor", 1), ("wrprotect", 3), ("group", 0x0A))))
        for kind in ("bytes", "mvw", "mvr", "mmapend"):
            ev.append((cmd, 3, 1, "B", (("_buf", kind),)))
    ev.append(("writesame16", 1 << 33, 0x10000, "B", ()))
    ev.append(("writesame16", (1 << 33) + 5, 0x10003, "A", (("unmap", 1),)))
    ev.append(("writesame16", (1 << 33) - 2, 0xFFFFFFFF, "A", ()))
    ev.append(("writesame10", 7, 0xFFFF, "B", ()))
    ev.append(("writesame16", 1, 2, "A", (("ndob", 1),)))
    ev.append(("writesame16", (1 << 40) + 3, 1, "B", (("ndob", 1), ("unmap", 1))))
    ev.append(("synchronizecache10", 0, 0, "", ()))
    ev.append(("synchronizecache16", 1 << 32, 2, "", (("immed", 1),)))
    return ev


def OPT_PARTITIONS(tier):
    """the -O pass repeats the sequential histories, not the schedule enumeration"""
    return [p for p in partitions(tier) if p[0] != "shared"][::2 if tier == "quick" else 1]


def partitions(tier):
    evs = events()
    parts = []
    for bs in (512, 4096):
        for i in range(len(evs)):
            parts.append([bs, i])
        parts.append([bs, -1])
    parts += [["shared", "sgio"], ["shared", "iscsi"], ["relink"], ["preset"], ["replug_reentrant"]]
    return parts


def block(p, bs, i=0):
    return bytes([(PAT[p] + i) & 0xFF]) * bs


class Model(dict):
    """lba -> block for small writes, plus extents (list of (start, n, block)) in write order; a later entry wins"""

    def __init__(self):
        dict.__init__(self)
        self.log = []          # (start, n, block or None when stored per block in the dict)

    def at(self, lba, bs):
        for (start, n, blk) in reversed(self.log):
            if start <= lba < start + n:
                return blk if blk is not None else self[lba]
        return bytes(bs)

    def probes(self):
        out = set()
        for (start, n, blk) in self.log:
            out.update((start - 1, start, start + 1, start + n // 2, start + n - 1, start + n))
        return out


def apply_model(model, ev, bs):
    cmd, lba, n, p, flags = ev
    if cmd.startswith("write1"):
        for i in range(n):
            model[lba + i] = block(p, bs, i)
            model.log.append((lba + i, 1, block(p, bs, i)))
    elif cmd.startswith("writesame"):
        blk = bytes(bs) if dict(flags).get("ndob") else block(p, bs)
        model.log.append((lba, n, blk))


def container(kind, payload):
    if kind in ("mmap", "mmapend"):
        # an anonymous memory map: a byte buffer that is ALSO a file-like object with a position - fresh (position 0), or filled
        # through its write() so that the position stands at the end
        import mmap
        if not payload:
            return bytearray()
        mm = mmap.mmap(-1, len(payload))
        if kind == "mmapend":
            mm.write(bytes(payload))
        else:
            mm[:] = bytes(payload)
        return mm
    if kind == "bytes":
        return bytes(payload)
    if kind == "mvw":
        pool = bytearray(b"\x3c" * 24) + bytearray(payload) + bytearray(b"\xc3" * 8)
        return memoryview(pool)[24:24 + len(payload)]
    if kind == "mvr":
        pool = b"\x3d" * 40 + bytes(payload) + b"\xd3" * 8
        return memoryview(pool)[40:40 + len(payload)]
    return bytearray(payload)


def do_event(s, ev, bs):
    cmd, lba, n, p, flags = ev
    kw = dict(flags)
    kind = kw.pop("_buf", None)
    if cmd.startswith("write1"):
        data = container(kind, b"".join(block(p, bs, i) for i in range(n)))
        return getattr(s, cmd)(lba, n, data, **kw)
    if cmd.startswith("writesame"):
        return getattr(s, cmd)(lba, n, container(kind, block(p, bs)), **kw)
    return getattr(s, cmd)(lba, n, **kw)


def observe(s, model, bs, where, tr, ident=(b"VERIF   ", b"SIMULATED TARGET", b"0001"), pdt=0):
    """read everything back; returns (violations, observation tuple)"""
    out = []
    obs = []
    lbas = set(model.probes())
    lbas.update((0, (1 << 32) - 1, 1 << 32))
    lbas = sorted(x for x in lbas if 0 <= x < BIG)

    def want(lba, n):
        return b"".join(model.at(lba + i, bs) for i in range(n))

    for lba in lbas:
        for cmd, lim in (("read10", 1 << 32), ("read12", 1 << 32), ("read16", BIG)):
            for n in (1, 2):
                if lba + n > lim:
                    continue
                try:
                    got = bytes(getattr(s, cmd)(lba, n).datain)
                except Exception as e:   # noqa: BLE001
                    out.append(("%s/%s/raises" % (tr, cmd), "%s: %s(%#x,%d) raised %s: %s" % (where, cmd, lba, n, type(e).__name__, e)))
                    continue
                if got != want(lba, n):
                    out.append(("%s/%s/data" % (tr, cmd), "%s: %s(%#x,%d) returned %s.., last written %s.." % (where, cmd, lba, n, got[:4].hex(), want(lba, n)[:4].hex())))
                obs.append((cmd, lba, n, hash(got)))
    for cmd, lim in (("read10", 1 << 32), ("read12", 1 << 32), ("read16", BIG)):
        lba = 1
        try:
            got = bytes(getattr(s, cmd)(lba, 1, rdprotect=3, dpo=1, fua=1, rarc=1, group=0x1F).datain)
            if got != want(lba, 1):
                out.append(("%s/%s/data_flags" % (tr, cmd), "%s: %s with all flags returned wrong data" % (where, cmd)))
        except Exception as e:   # noqa: BLE001
            out.append(("%s/%s/raises" % (tr, cmd), "%s: %s with flags raised %s: %s" % (where, cmd, type(e).__name__, e)))
    try:
        r10 = s.readcapacity10().result
        r16 = s.readcapacity16().result
        inq = s.inquiry().result
        if r10.get("returned_lba") != min(BIG - 1, 0xFFFFFFFF) or r10.get("block_length") != bs:
            out.append(("%s/readcapacity10" % tr, "%s: READ CAPACITY(10) -> %r" % (where, r10)))
        if r16.get("returned_lba") != BIG - 1 or r16.get("block_length") != bs:
            out.append(("%s/readcapacity16" % tr, "%s: READ CAPACITY(16) -> %r" % (where, r16)))
        if (bytes(inq.get("t10_vendor_identification", b"")) != ident[0] or bytes(inq.get("product_identification", b"")) != ident[1]
                or bytes(inq.get("product_revision_level", b"")) != ident[2] or inq.get("peripheral_device_type") != pdt):
            out.append(("%s/inquiry" % tr, "%s: INQUIRY reports %r / %r / %r, the target is %r" % (
                where, bytes(inq.get("t10_vendor_identification", b"")), bytes(inq.get("product_identification", b"")),
                bytes(inq.get("product_revision_level", b"")), ident)))
        obs.append((r10.get("returned_lba"), r16.get("returned_lba"), r16.get("block_length")))
    except Exception as e:   # noqa: BLE001
        out.append(("%s/identity/raises" % tr, "%s: capacity/inquiry raised %s: %s" % (where, type(e).__name__, e)))
    return out, tuple(obs)


_SERIAL = 0


PRESET_TYPES = (0x0E, 0x14)        # simplified direct-access (RBC) and host-managed zoned block devices: block targets the facade has no entry for
PRESET_MODES = ("before", "after", "both")


def run_history(bs, hist, check_all=True, pdt=0, preset=None):
    """replay hist on fresh rigs of both transports; returns (violations, canonical state, obs).
    pdt/preset: a conformant block target that reports a device type the facade does not list; the caller assigns the SBC table to the
    device (as the device classes' docstrings describe) before and/or after attaching the facade"""
    install.ensure()
    out = []
    model = Model()
    global _SERIAL
    _SERIAL += 1
    # every target has its own identity, so an answer remembered from another device or an earlier history is visible
    ident = {tr: (("VSG%05d" % (_SERIAL % 100000)).encode() if tr == "sgio" else ("VIS%05d" % (_SERIAL % 100000)).encode(),
                  ("TARGET %s %06d" % (tr[:2].upper(), _SERIAL % 1000000)).encode().ljust(16), ("%04d" % (_SERIAL % 10000)).encode())
             for tr in ("sgio", "iscsi")}
    rigs = [harness.Rig(tr, pdt, blocksize=bs, nblocks=BIG, vendor=ident[tr][0], product=ident[tr][1], revision=ident[tr][2])
            for tr in ("sgio", "iscsi")]
    for r in rigs:
        r.ident = ident[r.transport]
    try:
        if preset in ("before", "both"):
            for r in rigs:
                r.dev.opcodes = harness.opcode_set("sbc")
        fac = [r.facade(blocksize=bs) for r in rigs]
        if preset in ("after", "both"):
            for r in rigs:
                r.dev.opcodes = harness.opcode_set("sbc")
        for i, ev in enumerate(hist):
            apply_model(model, ev, bs)
            for r, s in zip(rigs, fac):
                try:
                    do_event(s, ev, bs)
                except Exception as e:   # noqa: BLE001
                    out.append(("%s/%s/raises" % (r.transport, ev[0]), "step %d of %r: raised %s: %s" % (i, hist, type(e).__name__, e)))
        where = "after %r (block size %d)" % (hist, bs) + (", device type %#04x with the SBC table assigned by the caller %s attaching" % (pdt, preset) if preset else "")
        observations = []
        for r, s in zip(rigs, fac):
            v, o = observe(s, model, bs, where, r.transport, r.ident, pdt)
            out += v
            observations.append(o)
            probes = sorted(x for x in (set(model.probes()) | set(r.target.disk)) if 0 <= x < BIG)
            bad = [x for x in probes if r.target.block_at(x) != model.at(x, bs)][:4]
            if bad or len(r.target.extents) != sum(1 for (_, n, _) in model.log if n > 4096):
                out.append(("%s/disk_differs" % r.transport, "%s: target medium differs from the model at LBAs %r (large extents on target: %r)"
                            % (where, [hex(b) for b in bad], [(hex(a), hex(n)) for (_, a, n, _) in r.target.extents])))
        if observations[0] != observations[1]:
            out.append(("transports_differ", "%s: SG_IO and iSCSI observations differ" % where))
        state = tuple(sorted((x, model.at(x, bs)[0]) for x in model.probes() if 0 <= x < BIG and model.at(x, bs) != bytes(bs)))
        return out, state, observations[0]
    finally:
        for r in rigs:
            r.close()


class RefusingTarget(object):
    pass


def shared_bodies(tr):
    """two threads share ONE facade/device: one writes LBA 5 and is refused (CHECK CONDITION, nothing stored), the other reads LBA 0"""
    from vf.sim.target import Target, fixed_sense
    tgt = Target(device_type=0, blocksize=512, nblocks=1 << 20)
    tgt.disk[0] = b"\x11" * 512
    orig = tgt.command

    def command(cdb, dataout, datain, transport):
        if cdb[0] == 0x2A:
            tgt.log.append({"cdb": bytes(cdb), "refused": True})
            return 0x02, fixed_sense(6, 0x29, 0x00)
        return orig(cdb, dataout, datain, transport)
    tgt.command = command
    rig = harness.Rig(tr, 0x00, target=tgt)
    s = rig.facade(blocksize=512)

    def writer():
        try:
            s.write10(5, 1, bytearray(b"\xa5" * 512))
            return "write returned normally"
        except Exception as e:   # noqa: BLE001
            return "write raised %s" % type(e).__name__

    def reader():
        try:
            return "read returned %s" % bytes(s.read10(0, 1).datain[:2]).hex()
        except Exception as e:   # noqa: BLE001
            return "read raised %s" % type(e).__name__
    return rig, [writer, reader]


def device_lines(filename, lineno, event):
    """scheduling points only in the device and facade modules (where per-device state lives)"""
    return filename.endswith(("iscsi_device.py", "scsi_device.py", "pyscsi/scsi.py"))


def run_shared(tr, choices, acc=None, tier="quick"):
    import os

    from vf import sched
    install.ensure()
    pre = os.path.join(os.environ.get("VF_REPO", "/repo"), "pyscsi") + "/"
    want = ["write raised CheckCondition", "read returned 1111"]

    def judge(x):
        out = []
        for tid, w in enumerate(want):
            got = x.results[tid] if x.errors[tid] is None else "harness error %r" % (x.errors[tid],)
            if got != w:
                out.append(("%s/shared_device/%s" % (tr, "writer" if tid == 0 else "reader"),
                            "two threads on one %s device, switches at %r: %s, the target answered so that '%s'"
                            % (tr, [(i, x.points[i][2]) for i, c in enumerate(x.choices) if c][:4], got, w)))
        return out

    rigs = []
    rig0, bodies0 = shared_bodies(tr)          # one device and facade for all schedules: the bodies keep no state but the device's
    rigs.append(rig0)

    def make():
        del rig0.target.log[:]
        return list(bodies0)
    try:
        if choices is not None:
            return judge(sched.Execution(make(), choices, pre, device_lines if tier == "device" else None).run())

        gran = [None]

        def on_exec(x):
            case = ["shared", tr, list(x.choices), gran[0]]
            acc.case(case, nontrivial=any(x.choices), key=(tr, tuple(i for i, c in enumerate(x.choices) if c), tuple(c for c in x.choices if c)))
            acc.transitions += 1
            acc.traces += 1
            for k, w in judge(x):
                acc.violation(k, w, case)
            acc.outcome(("shared", tr, tuple(x.results)))
        gran[0] = "line"
        n, capped = sched.explore(make, pre, 1, on_exec, None, 60000)
        if capped:
            acc.caps.append("schedule cap hit for shared device %s" % tr)
        acc.add("schedules", n)
        # two preemptions, scheduling points restricted to the device and facade modules
        acc.add("schedules_1_preemption_every_line", n)
        gran[0] = "device"
        n, capped = sched.explore(make, pre, 2, on_exec, device_lines, 60000)
        acc.add("schedules_2_preemptions_device_lines", n)
        if capped:
            acc.caps.append("schedule cap hit for shared device %s (2 preemptions)" % tr)
        acc.add("schedules", n)
    finally:
        while rigs:
            rigs.pop().close()


def run_relink(kind, cmdw, cmdr):
    """the device path is a by-path style link; after some traffic the link is re-pointed to another disk (the old node stays and is
    another disk now): later writes must land on, and reads come from, the disk the path designates now"""
    from vf.sim import nodes
    from vf.sim.target import Target
    from pyscsi.pyscsi.scsi import SCSI
    from pyscsi.pyscsi.scsi_device import SCSIDevice
    from pyscsi.utils import init_device
    install.ensure()
    out = []
    disks = {}

    def mk(g):
        t = Target(device_type=0, blocksize=512, nblocks=1 << 24, vendor=b"VERIF   ", product=("DISK-%d" % g).encode().ljust(16), revision=b"0001")
        disks[g] = t
        return t
    node = nodes.Node(mk, symlink="repoint" if kind == "repoint" else True if kind != "reopen" else False)
    dev = None
    try:
        dev = init_device(node.path, True) if kind not in ("direct", "reopen") else SCSIDevice(node.path, True, kind != "reopen")
        s = SCSI(dev, 512)
        a, b = bytearray(b"\xa1" * 512), bytearray(b"\xb2" * 512)
        getattr(s, cmdw)(5, 1, a)
        node.plug()
        if kind == "reopen":
            # replug detection is off; the caller re-attaches by hand the simple way: dev.open() (no close() first)
            dev.open()
        getattr(s, cmdw)(6, 1, b)
        got = bytes(getattr(s, cmdr)(6, 1).datain)
        where = "%s/%s through a %s path after the path was moved to another disk" % (cmdw, cmdr, "re-pointed link" if kind == "repoint" else "replaced node re-opened by hand with dev.open()" if kind == "reopen" else "replaced node behind a link")
        if got != bytes(b):
            out.append(("sgio/relink/readback", "%s: read back %s..., written %s..." % (where, got[:4].hex(), bytes(b)[:4].hex())))
        if disks[2].block_at(6) != bytes(b) or disks[1].block_at(6) == bytes(b):
            out.append(("sgio/relink/wrong_disk", "%s: block 6 of the new disk holds %s..., of the old disk %s..." % (where, disks[2].block_at(6)[:4].hex(), disks[1].block_at(6)[:4].hex())))
        if disks[1].block_at(5) != bytes(a):
            out.append(("sgio/relink/first_write_lost", "%s: the write before the move is not on the first disk" % where))
        ident = bytes(s.inquiry().result.get("product_identification", b""))
        if ident != b"DISK-2".ljust(16):
            out.append(("sgio/relink/identity", "%s: INQUIRY reports %r, the path designates DISK-2" % (where, ident)))
        if kind == "repoint":
            # ... and back to the first disk (the very same node as at the start): A -> B -> A with a command on each
            node.repoint_to(1)
            c = bytearray(b"\xc3" * 512)
            getattr(s, cmdw)(7, 1, c)
            got = bytes(getattr(s, cmdr)(7, 1).datain)
            if got != bytes(c) or disks[1].block_at(7) != bytes(c) or disks[2].block_at(7) == bytes(c):
                out.append(("sgio/relink/back_to_first_disk", "%s and back to the first disk: block 7 read back %s..., first disk holds %s..., second disk %s..."
                            % (where, got[:4].hex(), disks[1].block_at(7)[:4].hex(), disks[2].block_at(7)[:4].hex())))
            ident = bytes(s.inquiry().result.get("product_identification", b""))
            if ident != b"DISK-1".ljust(16):
                out.append(("sgio/relink/identity", "%s and back: INQUIRY reports %r, the path designates DISK-1 again" % (where, ident)))
    finally:
        if dev is not None:
            try:
                dev.close()
            except Exception:   # noqa: BLE001
                pass
        node.destroy()
    return out


def preset_histories():
    w10, w12, w16 = ("write10", 1, 1, "A", ()), ("write12", (1 << 32) - 2, 2, "B", ()), ("write16", 1 << 32, 1, "A", ())
    s10, s16 = ("writesame10", 0, 2, "A", ()), ("writesame16", (1 << 40) + 3, 1, "A", ())
    assert all(e in events() for e in (w10, w12, w16, s10, s16))
    return [[], [w10], [w12], [w16], [s10], [s16], [w10, s16], [s10, w16], [w10, w12, w16]]


def run_replug_reentrant(rw, pre, only=None, acc=None):
    """the unit behind the node was replaced; a second command is issued on the same device object between two source lines of the
    first (another thread scheduled in between, a signal handler), at every line in turn: no command goes to the unit that is no
    longer there - data would be written to, or read from, the wrong disk (enumeration shared with C15)"""
    from vf.props import c15
    v, n = c15.run_reentrant(True, rw, pre, acc, only)
    return [("replug_reentrant/" + k.split("/", 1)[1], w) for k, w in v], n


def run_case(case):
    if case[0] == "replug_reentrant":
        return run_replug_reentrant(case[1], case[2], case[3])[0]
    if case[0] == "preset":
        _, pdt, mode, bs, hist = case
        hist = [(e[0], e[1], e[2], e[3], tuple(tuple(f) for f in e[4])) for e in hist]
        return run_history(bs, hist, pdt=pdt, preset=mode)[0]
    if case[0] == "relink":
        return run_relink(*case[1:])
    if case[0] == "shared":
        return run_shared(case[1], case[2], None, case[3] if len(case) > 3 else "line")
    bs, hist = case
    hist = [(e[0], e[1], e[2], e[3], tuple(tuple(f) for f in e[4])) for e in hist]
    return run_history(bs, hist)[0]


def replay(case):
    return run_case(case)


def run_partition(part, tier, seed):
    install.ensure()
    acc = Acc(seed)
    if part[0] == "shared":
        run_shared(part[1], None, acc)
        return acc
    if part[0] == "replug_reentrant":
        for rw in (True, False):
            for pre in ("r", "xr", "rr"):
                v, npoints = run_replug_reentrant(rw, pre, None, acc)
                acc.add("reentrancy_points", npoints)
                acc.traces += npoints
                case = ["replug_reentrant", rw, pre, npoints - 1 if v else None]
                acc.case(case, nontrivial=True, key=repr(case[:3]))
                for k, w in v:
                    acc.violation(k, w, case)
                acc.outcome(("rr", rw, pre, npoints, tuple(k for k, _ in v)))
        return acc
    if part[0] == "preset":
        for pdt in PRESET_TYPES:
            for mode in PRESET_MODES:
                for bs in (512, 4096):
                    for hist in preset_histories():
                        case = ["preset", pdt, mode, bs, [list(e[:4]) + [list(e[4])] for e in hist]]
                        acc.case(case, nontrivial=True, key=repr(case))
                        try:
                            v = run_history(bs, hist, pdt=pdt, preset=mode)[0]
                        except Exception:
                            import traceback
                            v = [("harness_error", traceback.format_exc()[-600:])]
                        for k, w in v:
                            acc.violation("preset/" + k, w, case)
                        acc.outcome((pdt, mode, bs, len(hist), tuple(k for k, _ in v)))
                        acc.transitions += len(hist) + 1
                        acc.traces += 1
        return acc
    if part[0] == "relink":
        for kind in ("repoint", "replace", "direct", "reopen"):
            for cmdw, cmdr in (("write10", "read10"), ("write12", "read12"), ("write16", "read16"), ("write10", "read16")):
                case = ["relink", kind, cmdw, cmdr]
                acc.case(case, nontrivial=True, key=repr(case))
                try:
                    v = run_case(case)
                except Exception:
                    import traceback
                    v = [("harness_error", traceback.format_exc()[-600:])]
                for k, w in v:
                    acc.violation(k, w, case)
                acc.outcome((repr(case), tuple(k for k, _ in v)))
                acc.transitions += 3
                acc.traces += 1
        return acc
    bs, first = part
    evs = events()
    depth = bounds(tier)["depth"]
    seen = set()
    frontier = collections.deque()

    def visit(hist):
        case = [bs, [list(e) for e in hist]]
        acc.case(case, nontrivial=bool(hist), key=(bs, tuple(hist)))
        try:
            v, state, obs = run_history(bs, hist)
        except Exception:
            import traceback
            v, state, obs = [("harness_error", traceback.format_exc()[-600:])], ("err", len(acc.viol)), ()
        for k, w in v:
            acc.violation(k, w, case)
        acc.outcome(obs)
        acc.transitions += len(hist) and 1
        acc.traces += 1
        if state not in seen:
            seen.add(state)
            frontier.append(hist)

    if first == -1:
        visit(())
        acc.stateset |= {hash((bs, s)) for s in seen}
        return acc
    visit((evs[first],))
    while frontier:
        hist = frontier.popleft()
        if len(hist) >= depth:
            continue
        for ev in evs:
            visit(hist + (ev,))
    acc.stateset |= {hash((bs, s)) for s in seen}
    return acc
