"""Child process of C19: one presence combination of the two bindings, fresh interpreter.

usage: python -m vf.props.c19_child <repo> <sgio:0|1|2> <iscsi:0|1|2> [order]  -> JSON on stdout   (0 not installed, 1 present, 2 installed but unloadable)
"""
import importlib
import json
import os
import pkgutil
import socket
import sys

HOSTNAMES = [None, "a" * 64, "node7..cluster", "m\u00fcnchen-host", "", "host with blanks{0}%s", "x" * 63 + ".example.org"]
OPENS = []
RECORD = [False]
IGNORE_PREFIXES = []


def _audit(event, args):
    if event == "open" and RECORD[0]:
        path = args[0]
        try:
            p = os.fspath(path) if not isinstance(path, int) else "<fd %d>" % path
        except TypeError:
            p = repr(path)
        if isinstance(p, bytes):
            p = p.decode("utf-8", "replace")
        for pre in IGNORE_PREFIXES:
            if p.startswith(pre):
                return
        OPENS.append((p, args[1], args[2]))


ENTERED = []


def main():
    repo, has_sgio, has_iscsi = sys.argv[1], sys.argv[2] == "1", sys.argv[3] == "1"
    sys.path.insert(0, repo)
    # the machine's host name (it ends up in the default initiator name) is one more answer of the environment
    hv = int(sys.argv[5]) if len(sys.argv) > 5 else 0
    if hv:
        hostname = HOSTNAMES[hv]
        socket.gethostname = lambda: hostname
    from vf.sim import install, nodes, registry
    from vf.sim.target import Target
    install.install(int(sys.argv[2]), int(sys.argv[3]))
    IGNORE_PREFIXES.extend([repo + "/", sys.prefix + "/", sys.base_prefix + "/", "/usr/lib/python", os.path.dirname(os.path.dirname(os.path.dirname(__file__))) + "/"])
    sys.addaudithook(_audit)
    results = []       # [kind, case, [ (key, what) ]]

    def rec(kind, case, viols):
        results.append([kind, case, viols])

    # orders 4 and 5: a process that has imported nothing but the package itself goes straight to the factories (refused strings
    # first / as listed): what the import-everything pass would have loaded is not loaded yet
    early_order = int(sys.argv[4]) if len(sys.argv) > 4 else 0
    import pyscsi
    if early_order >= 4:
        return factories(repo, has_sgio, has_iscsi, results, rec)
    # 1. every module imports
    mods = ["pyscsi"]
    for m in pkgutil.walk_packages(pyscsi.__path__, "pyscsi."):
        mods.append(m.name)
    # every module file of the source tree is part of a regular package (a directory without __init__.py still imports from the
    # source tree as a namespace package, but setup.cfg's `packages = find:` leaves it out of every built or installed copy)
    on_disk = []
    pkgroot = os.path.dirname(pyscsi.__file__)
    for d, subdirs, files in os.walk(pkgroot):
        subdirs[:] = [x for x in subdirs if x != "__pycache__"]
        for f in files:
            if f.endswith(".py"):
                rel = os.path.relpath(os.path.join(d, f), os.path.dirname(pkgroot))[:-3].replace(os.sep, ".")
                on_disk.append(rel[:-9] if rel.endswith(".__init__") else rel)
    missing = sorted(set(on_disk) - set(mods))
    rec("import", "package-structure", [("import/not_in_a_regular_package", "module files %r are not reachable through regular packages (no __init__.py): "
                                         "a built / installed copy of the library lacks them" % missing[:6])] if missing else [])
    for name in mods:
        v = []
        try:
            importlib.import_module(name)
        except Exception as e:   # noqa: BLE001
            v.append(("import/%s" % name, "import %s raised %s: %s (sgio=%s iscsi=%s)" % (name, type(e).__name__, e, has_sgio, has_iscsi)))
        rec("import", name, v)

    # 2. every command class builds, encodes, decodes
    from vf import cmdspace as CS
    from vf.spec import cdb as S
    for name, c in S.CLASSES.items():
        v = []
        try:
            op = None
            for st, key in c["tables"]:
                op = CS.get_opcode(st, key)
                if op is not None:
                    break
            cls = CS.get_class(name)
            cmd = cls(op, **CS.build_kwargs(name, CS.baseline(name), ata_blocksize=512 if name in S.ATA_LBA_BYTES else None))
            d = cls.unmarshall_cdb(cmd.cdb)
            b = cls.marshall_cdb(d)
            if bytes(b) != bytes(cmd.cdb) or bytes(cmd.cdb)[0] != c["op"]:
                v.append(("command/%s" % name, "%s: cdb %s re-encodes to %s" % (name, bytes(cmd.cdb).hex(), bytes(b).hex())))
        except Exception as e:   # noqa: BLE001
            v.append(("command/%s" % name, "%s raised %s: %s (sgio=%s iscsi=%s)" % (name, type(e).__name__, e, has_sgio, has_iscsi)))
        rec("command", name, v)

    # 3. the facade works over any device object
    v = []
    try:
        import pyscsi.pyscsi.scsi_enum_command as E
        from pyscsi.pyscsi.scsi import SCSI

        class Plain(object):
            def __init__(self):
                self.opcodes = E.spc
                self.seen = []

            def execute(self, cmd, en_raw_sense=False):
                self.seen.append(bytes(cmd.cdb))
                if cmd.cdb[0] == 0x12:
                    cmd.datain[0] = 0x05
                    cmd.datain[4] = 91

            def close(self):
                self.closed = True
        p = Plain()
        with SCSI(p) as s:
            s.testunitready()
            r = s.inquiry().result
        if p.opcodes is not E.mmc or r.get("peripheral_device_type") != 5 or len(p.seen) != 3 or not getattr(p, "closed", False):
            v.append(("facade_plain", "facade over a plain object: opcodes=%r seen=%r" % (p.opcodes, [x.hex() for x in p.seen])))
    except Exception as e:   # noqa: BLE001
        v.append(("facade_plain", "facade over a plain object raised %s: %s" % (type(e).__name__, e)))
    rec("facade", "plain", v)

    return factories(repo, has_sgio, has_iscsi, results, rec)


def factories(repo, has_sgio, has_iscsi, results, rec):
    from vf.sim import nodes, registry
    from vf.sim.target import Target
    # 4. device factories
    from pyscsi.utils import init_device
    node = nodes.Node(lambda g: Target())
    registry.by_url[("h", "t", 0)] = Target()
    registry.by_url[("10.0.0.1:3260", "iqn.2000-01.verif:x", 7)] = Target()
    default_name = "iqn.2018-01.org.pyscsi:%s" % socket.gethostname()
    strings = [node.path, "/dev/", node.path + "-absent", "/dev/shm", "iscsi://h/t/0", "iscsi://10.0.0.1:3260/iqn.2000-01.verif:x/7",
               "iscsi://user%secret@h/t/0", "iscsi://chapuser@192.0.2.1:3260/iqn.2003-01.org.example:tgt/2", "iscsi://[fe80::1]:3260/iqn.x:y/15",
               "iscsi://H.Example.COM/IQN.Mixed:Case/0", "iscsi://h/t@x/0",
               node.path + "{a,b}", "/dev/{0}", "/dev/%s", "/dev/shm/sd{", "iscsi://h/t{pool}/0", "iscsi://h/%(t)s/0", "{dev}", "%d",
               "iscsi:/", "iscsi:/h/t/0", "", "sg0", "/tmp/x", "ISCSI://h/t/0", "/DEV/sg0", "dev/sg0", " /dev/sg0", "/de", "iscsi",
               "/dev", "file:///dev/sg0", "//dev/sg0",
               # strings a URL parser has its own opinion about (unbalanced or non-address brackets, odd ports)
               "iscsi://[fe80::1/iqn.x:y/0", "iscsi://[storage-1]:3260/iqn.x:y/0", "iscsi://10.0.0.1]:3260/iqn.x:y/0", "nbd://[::1", "//[", "http://a]b/c",
               "iscsi://h:notaport/t/0", "iscsi://h:99999/t/0", "nbd://h:x/", "http://[::1]:notaport/"]
    calls = []
    for dev in strings:
        for rw in (False, True):
            calls.append(("init_device", dev, rw, None))
            calls.append(("init_device", dev, rw, "iqn.1999-01.x:explicit"))
            calls.append(("SCSIDevice", dev, rw, None))
            calls.append(("SCSIDeviceSub", dev, rw, None))
        calls.append(("ISCSIDevice", dev, None, "iqn.1999-01.x:explicit"))
        calls.append(("ISCSIDevice", dev, None, None))
        calls.append(("ISCSIDeviceSub", dev, None, None))
    if os.getuid() == 0 and os.geteuid() == 0:
        os.chmod(node.path, 0o600)
        for rw in (False, True):
            calls.append(("init_device@reuid", node.path, rw, None))
            calls.append(("SCSIDevice@reuid", node.path, rw, None))
    # call order: the same calls in four different orders (one process each), so that a factory remembering something from an
    # earlier call (a cached default, a handle, a name) is seen whichever way round the calls come
    order = int(sys.argv[4]) if len(sys.argv) > 4 else 0
    if order == 1:
        calls.reverse()
    elif order == 2:
        calls.sort(key=lambda c: (c[3] is None, c[0], c[1], str(c[2])))       # explicit initiator names first
    elif order == 3:
        calls = calls[1::2] + calls[0::2]
    elif order == 4:
        calls.sort(key=lambda c: (c[1][:5] == "/dev/" or c[1][:8] == "iscsi://", c[0] != "init_device"))      # strings nobody handles first
    for (fn, dev, rw, ini) in calls:
        v = []
        del ENTERED[:]
        del OPENS[:]
        del registry.iscsi_events[:]
        RECORD[0] = True
        obj = err = None
        reuid = fn.endswith("@reuid")
        if reuid:
            # a set-uid helper / a daemon that changed its real uid: the EFFECTIVE uid (root) may open the node, the real uid (nobody)
            # could not - what counts for open() is the effective one
            fn = fn[:-len("@reuid")]
            os.setreuid(65534, 0)
        try:
            if fn == "init_device":
                obj = init_device(dev, rw) if ini is None else init_device(dev, rw, ini)
            elif fn == "SCSIDevice":
                from pyscsi.pyscsi.scsi_device import SCSIDevice
                obj = SCSIDevice(dev, rw)
            elif fn == "SCSIDeviceSub":
                # a device class derived from SCSIDevice that opens the node its own way (replacing open() entirely)
                import pyscsi.pyscsi.scsi_device as dm

                class FdDevice(dm.SCSIDevice):
                    def open(self):
                        ENTERED.append("FdDevice.open")
                        fd = os.open(self._file_name, os.O_RDWR if self._read_write else os.O_RDONLY)
                        self._file = os.fdopen(fd, "r+b" if self._read_write else "rb", buffering=0)
                        self._ino = dm.get_inode(self._file_name)
                obj = FdDevice(dev, rw)
            elif fn == "ISCSIDeviceSub":
                from pyscsi.pyiscsi.iscsi_device import ISCSIDevice

                class PooledISCSI(ISCSIDevice):
                    def open(self, device):
                        ENTERED.append("PooledISCSI.open")
                        self._pooled = device
                obj = PooledISCSI(dev) if ini is None else PooledISCSI(dev, ini)
            else:
                from pyscsi.pyiscsi.iscsi_device import ISCSIDevice
                obj = ISCSIDevice(dev) if ini is None else ISCSIDevice(dev, ini)
        except Exception as e:   # noqa: BLE001
            err = e
        finally:
            if reuid:
                os.setreuid(0, 0)
        RECORD[0] = False
        opens = list(OPENS)
        events = list(registry.iscsi_events)
        tag = "%s(%r, rw=%r, initiator=%r)%s [sgio=%s iscsi=%s]" % (fn, dev, rw, ini, " with real uid 65534 / effective uid 0" if reuid else "", has_sgio, has_iscsi)
        sg_path = dev[:5] == "/dev/" and fn in ("init_device", "SCSIDevice", "SCSIDeviceSub")
        is_path = dev[:8] == "iscsi://" and fn in ("init_device", "ISCSIDevice", "ISCSIDeviceSub")
        if fn.endswith("Sub") and ((sg_path and has_sgio) or (is_path and has_iscsi)):
            pass          # (a request the base class serves: what the subclass's own open() does with it is the subclass's business)
        elif sg_path and has_sgio:
            want_mode = "w+b" if rw else "rb"
            if any(p != dev for p, _, _ in opens):
                v.append(("factory/opened_other_path", "%s opened %r" % (tag, opens)))
            if err is None:
                if type(obj).__name__ != "SCSIDevice":
                    v.append(("factory/wrong_class", "%s returned %r" % (tag, obj)))
                elif len(opens) != 1 or (opens[0][2] & os.O_ACCMODE) != (os.O_RDWR if rw else os.O_RDONLY):
                    v.append(("factory/open_mode", "%s opened %r, expected one open of the path with mode %s" % (tag, opens, want_mode)))
            elif reuid:
                v.append(("factory/openable_node_refused", "%s raised %s: %s although open() of the node succeeds for this process" % (tag, type(err).__name__, err)))
            elif not isinstance(err, OSError):
                v.append(("factory/wrong_error", "%s raised %s: %s" % (tag, type(err).__name__, err)))
            if events:
                v.append(("factory/iscsi_touched", "%s touched iSCSI: %r" % (tag, events)))
        elif is_path and has_iscsi:
            if err is not None or type(obj).__name__ != "ISCSIDevice":
                v.append(("factory/iscsi_failed", "%s -> %r / %s: %s" % (tag, obj, type(err).__name__, err)))
            else:
                kinds = [e[0] for e in events]
                if kinds.count("context") != 1 or kinds.count("connect") != 1 or kinds.count("url") != 1:
                    v.append(("factory/iscsi_calls", "%s events %r" % (tag, events)))
                else:
                    url = [e for e in events if e[0] == "url"][0][1]
                    ctxname = [e for e in events if e[0] == "context"][0][1]
                    con = [e for e in events if e[0] == "connect"][0]
                    rest = dev[len("iscsi://"):].split("/")
                    if url != dev or con[1:] != (rest[0], rest[1], int(rest[2])):
                        v.append(("factory/iscsi_url_changed", "%s: URL %r, connect %r" % (tag, url, con)))
                    want_name = ini if ini is not None else (default_name if fn == "init_device" else None)
                    if want_name is not None and ctxname != want_name:
                        v.append(("factory/initiator_name", "%s: Context(%r), expected %r" % (tag, ctxname, want_name)))
            if opens:
                v.append(("factory/file_opened", "%s opened files %r" % (tag, opens)))
        else:
            if not isinstance(err, NotImplementedError):
                v.append(("factory/not_refused", "%s -> %r / %s: %s, expected NotImplementedError" % (tag, obj, type(err).__name__, err)))
            if opens:
                v.append(("factory/opened_before_refusal", "%s opened %r" % (tag, opens)))
            if events:
                v.append(("factory/connected_before_refusal", "%s iSCSI events %r" % (tag, events)))
            if ENTERED:
                v.append(("factory/subclass_open_entered_before_refusal", "%s: %s ran although the request must be refused" % (tag, ENTERED[0])))
        if obj is not None:
            try:
                obj.close()
            except Exception:
                pass
        rec("factory", [fn, dev, rw, ini], v)
    node.destroy()
    nodes.cleanup()
    json.dump(results, sys.stdout)


if __name__ == "__main__":
    main()
