"""C02 - CDB decoding is the exact inverse of CDB encoding."""
import itertools

from vf import cmdspace as CS
from vf.runner import Acc
from vf.spec import bits
from vf.spec import cdb as S

ID = "C02"
LEVEL = "exploration"
TECHNIQUE = "deviation-bounded exhaustive enumeration of joint field assignments and of library-built CDBs; marshall_cdb/unmarshall_cdb compared with an independent spec codec in both directions"
RULE = ("5 x 5 classes of all CDB length groups: B built / decoded / re-encoded in the same thread between two library lines of A, at every line; per class a derived class with a layout of its own (the widest field re-cut into two under new names): its codec follows its own table only; field dictionaries also as a read-only mappingproxy and as a row object whose iteration yields values (baseline and single deviations); an opcode scan in one process (a CDB marshalled for each of the 256 operation code values, 4 orders; ten classes built, decoded and re-encoded before and after every 32 values: unchanged); per class: (a) joint assignments to all CDB fields at once (service action included; the operation code over all codes of the class's CDB-length group), every assignment deviating "
        "from the all-zero and from the all-ones baseline in at most k fields (k=2 quick, 3 thorough), each deviating field over its whole "
        "alphabet; the spec encoder turns the assignment into bytes, then unmarshall_cdb(bytes) must equal the assignment, "
        "marshall_cdb(assignment) and marshall_cdb(unmarshall_cdb(bytes)) must equal the bytes, and relative to the baseline only the "
        "deviating fields may change; (b) every CDB built by the constructor for argument tuples with at most k-1 deviations is decoded "
        "and re-encoded, allocation / transfer lengths 2^24+1 ... 2^32-1 included (buffers stood in for by length-only objects); (c) 13 fresh processes whose first library action is a base-class marshall / build / decode with an operation code of each length group, a refused marshall or a refused construction, followed by the first-ever dictionary-level encode/decode of every class at both baselines; (d) per class, the layout table re-bound with one more field in a free byte (a user adding the CONTROL byte): class-level encode, instance-level build and decode must follow the table in place; (e) per class, a subclass overriding the marshall_cdb / unmarshall_cdb pair: constructor and build_cdb go through the override; (f) per class, one existing layout entry moved to a free byte after the class was used (replaced under its key / edited in place): encode and decode follow the table as it stands. Non-trivial = at least one deviation; distinct = distinct (class, mode, assignment).")
ASSUMPTIONS = [
    "oracle: vf/spec/cdb.py + vf/spec/bits.py",
    "each class is used the way the repository's tests use it: an instance of the class is constructed immediately before its marshall_cdb/unmarshall_cdb are called (isolation between classes is C09's subject)",
    "ATA PASS-THROUGH: at dictionary level 'lba' is the LBA field in CDB byte order (bytes 7-12 / 5-7); the SAT shuffle done by the constructor is judged in C01",
]


def bounds(tier):
    return {"k": 2 if tier == "quick" else 3, "k_built": 1 if tier == "quick" else 2, "maxbuf": 1 << 20}


def lib_fields(name):
    f = [("opcode", 0, 7, 8)] + S.spec_fields(name)
    if name == "ATAPassThrough16":
        f.append(("lba", 7, 7, 48))
    if name == "ATAPassThrough12":
        f.append(("lba", 5, 7, 24))
    return f


MAXTASKS = 1          # every partition in a freshly forked process (the first-use partitions need a process in which nothing was marshalled yet)
N_FIRST = 13


REENTRANT_CLASSES = ["TestUnitReady", "Read10", "Read12", "Read16", "Inquiry"]


def partitions(tier):
    return [[n] for n in S.CLASSES] + [["first-use", i] for i in range(N_FIRST)] + [["scan", o] for o in ("up", "down", "groups", "interleaved")] + [["reentrant", a] for a in REENTRANT_CLASSES]


def first_action(i):
    """what happens in the process BEFORE any command class marshals for the first time"""
    from pyscsi.pyscsi.scsi_command import SCSICommand
    from pyscsi.pyscsi.scsi_opcode import OpCode
    ops = [0x00, 0x28, 0xA8, 0x88]
    if i == 0:
        return "nothing"
    if 1 <= i <= 4:
        SCSICommand.marshall_cdb({"opcode": ops[i - 1]})
        return "SCSICommand.marshall_cdb({'opcode': %#04x}) through the base class" % ops[i - 1]
    if 5 <= i <= 8:
        SCSICommand(OpCode("X", ops[i - 5], {}), 0, 0).build_cdb(opcode=ops[i - 5])
        return "SCSICommand(OpCode(%#04x), 0, 0).build_cdb(opcode=...) on a base-class instance" % ops[i - 5]
    if i == 9:
        SCSICommand.unmarshall_cdb(bytearray(16))
        return "SCSICommand.unmarshall_cdb(16 zero bytes) through the base class"
    if i == 10:
        try:
            SCSICommand.marshall_cdb({"opcode": 0x7F})
        except Exception:   # noqa: BLE001
            pass
        return "a refused SCSICommand.marshall_cdb({'opcode': 0x7f})"
    if i == 11:
        try:
            CS.get_class("Read10")(CS.get_opcode("sbc", "READ_10"), 0, 1, 1)
        except Exception:   # noqa: BLE001
            pass
        return "a refused Read10 construction (no block size)"
    try:
        CS.get_class("Inquiry").marshall_cdb({})
    except Exception:   # noqa: BLE001
        pass
    return "Inquiry.marshall_cdb({}) (raises KeyError)"


def run_first_use(i):
    """-> list of (case, violations): after the first action every class's very first use is a dictionary-level encode/decode"""
    what = first_action(i)
    res = []
    for name in S.CLASSES:
        cls = CS.get_class(name)
        for basekind in ("ones", "zeros"):
            vals = base_of(name, basekind)
            try:
                v = check_assignment(name, cls, vals)
            except Exception as e:   # noqa: BLE001
                v = [("raises/%s" % name, "%s: %s %r" % (name, type(e).__name__, e))]
            res.append((name, basekind, [("first_use/" + k, "first use of %s in a process after %s: %s" % (name, what, w)) for k, w in v]))
    return res


def base_of(name, basekind):
    base = {f: (0 if basekind == "zeros" else (1 << w) - 1) for (f, b, msb, w) in lib_fields(name)}
    base["opcode"] = S.CLASSES[name]["op"]
    return base


def spec_bytes(name, vals):
    buf = bytes(S.CLASSES[name]["length"])
    for (f, b, msb, w) in lib_fields(name):
        buf = bits.deposit(buf, b, msb, w, vals[f])
    return buf


def fresh_instance(name):
    c = S.CLASSES[name]
    for st, key in c["tables"]:
        op = CS.get_opcode(st, key)
        if op is not None:
            cls = CS.get_class(name)
            kw = CS.build_kwargs(name, CS.baseline(name), ata_blocksize=512 if name in S.ATA_LBA_BYTES else None)
            return cls, cls(op, **kw), op
    raise RuntimeError("no table offers " + name)


class Record(object):
    """a row object as database drivers hand out (sqlite3.Row behaves like this): keys() names the columns, row[name] the value,
    iterating the row yields the VALUES"""

    def __init__(self, d):
        self._d = dict(d)

    def keys(self):
        return list(self._d)

    def __getitem__(self, k):
        return self._d[k]

    def __len__(self):
        return len(self._d)

    def __iter__(self):
        return iter(self._d.values())


def check_assignment(name, cls, vals, basevals=None, dev=()):
    out = []
    b = spec_bytes(name, vals)
    d = cls.unmarshall_cdb(bytearray(b))
    for f, v in vals.items():
        if f not in d:
            out.append(("decode_missing/%s/%s" % (name, f), "%s.unmarshall_cdb(%s) has no key %r" % (name, b.hex(), f)))
        elif d[f] != v:
            out.append(("decode/%s/%s" % (name, f), "%s.unmarshall_cdb(%s)[%s] = %#x, the CDB carries %#x" % (name, b.hex(), f, d[f], v)))
    extra = set(d) - set(vals)
    if extra:
        out.append(("decode_extra/%s" % name, "%s.unmarshall_cdb returns keys %r that are no CDB field" % (name, sorted(extra))))
    m = bytes(cls.marshall_cdb(dict(vals)))
    if m != b:
        out.append(("encode/%s" % name, "%s.marshall_cdb(%r) = %s, expected %s" % (name, vals, m.hex(), b.hex())))
    # the same assignment under keys that are equal strings but other objects (parsed from text, JSON, pickles ...)
    try:
        m3 = bytes(cls.marshall_cdb({k.encode().decode(): v for k, v in vals.items()}))
    except Exception as e:   # noqa: BLE001
        m3 = "raised %s" % type(e).__name__
    if m3 != b:
        out.append(("encode_runtime_keys/%s" % name, "%s.marshall_cdb(%r) with keys built at run time = %s, expected %s"
                    % (name, vals, m3.hex() if isinstance(m3, bytes) else m3, b.hex())))
    # ... and with keys that are no field of this command in front of / between the others (documented to be ignored: the field
    # dictionary of a sibling command, a decoded result, a caller's own annotations)
    keys = list(vals)
    for pos in (0, len(keys) // 2):
        dd = {}
        for i, k in enumerate(keys):
            if i == pos:
                dd["zz_not_a_field"] = 1
            dd[k] = vals[k]
        try:
            m4 = bytes(cls.marshall_cdb(dd))
        except Exception as e:   # noqa: BLE001
            m4 = "raised %s" % type(e).__name__
        if m4 != b:
            out.append(("encode_foreign_key/%s" % name, "%s.marshall_cdb with a key that is no field at position %d of %r = %s, expected %s"
                        % (name, pos, keys, m4.hex() if isinstance(m4, bytes) else m4, b.hex())))
            break
    if not dev:
        # the codec pair called with its argument spelled out under the name the release documents (cdb=...)
        try:
            kd, km = cls.unmarshall_cdb(cdb=bytearray(b)), bytes(cls.marshall_cdb(cdb=dict(vals)))
            if kd != d or km != b:
                out.append(("codec_keyword/%s" % name, "%s: unmarshall_cdb(cdb=...) / marshall_cdb(cdb=...) give other results than the positional calls" % name))
        except Exception as e:   # noqa: BLE001
            out.append(("codec_keyword/%s" % name, "%s: the codec pair called with cdb=... raised %s: %s" % (name, type(e).__name__, e)))
    if len(dev) <= 1:
        # the field values held in other mapping types: a read-only proxy, a row object whose iteration yields values
        import types
        for how, obj in (("a mappingproxy", types.MappingProxyType(dict(vals))), ("a row object (keys() / row[name], iteration yields values)", Record(vals))):
            try:
                m5 = bytes(cls.marshall_cdb(obj))
            except Exception as e:   # noqa: BLE001
                m5 = "raised %s: %s" % (type(e).__name__, e)
            if m5 != b:
                out.append(("encode_mapping_type/%s" % name, "%s.marshall_cdb of %r held in %s = %s, expected %s"
                            % (name, vals, how, m5.hex() if isinstance(m5, bytes) else m5, b.hex())))
    m2 = bytes(cls.marshall_cdb(d))
    if m2 != b:
        out.append(("reencode/%s" % name, "%s.marshall_cdb(unmarshall_cdb(%s)) = %s" % (name, b.hex(), m2.hex())))
    if basevals is not None:
        d0 = cls.unmarshall_cdb(bytearray(spec_bytes(name, basevals)))
        changed = {f for f in set(d) | set(d0) if d.get(f) != d0.get(f)}
        want = {f for f in dev if vals[f] != basevals[f]}
        if changed != want:
            out.append(("onefield/%s" % name, "%s: changing %r changed decoded fields %r" % (name, sorted(want), sorted(changed))))
    return out


def check_built_wide(name, cls, op):
    """constructor-built CDBs for allocation / transfer lengths beyond what can be allocated (2^31-1 ... 2^32-1), with the data
    buffers stood in for by length-only objects (see C01): decoding returns what the command was built from"""
    from vf.props import c01
    c = S.CLASSES[name]
    out = []
    for arg, field in c["args"].items():
        if field not in S.ALLOCATING:
            continue
        width = next((w for (f, _, _, w) in lib_fields(name) if f == field), 0)
        if width < 24:
            continue
        for v in sorted(x for x in {(1 << 24) + 1, (1 << 31) - 1, 1 << 31, (1 << 31) + 0x10, (1 << 32) - 1} if x < (1 << width)):
            point = dict(CS.baseline(name))
            point[arg] = v
            kw = CS.build_kwargs(name, point, ata_blocksize=512 if name in S.ATA_LBA_BYTES else None, nodata=True)
            try:
                with c01.lazy_buffers():
                    cmd = cls(op, **kw)
                d = cls.unmarshall_cdb(bytearray(bytes(cmd.cdb)))
            except MemoryError:
                continue
            except Exception as e:   # noqa: BLE001
                out.append(("built_wide/%s" % name, "%s(%s=%#x) raised %s: %s" % (name, arg, v, type(e).__name__, e)))
                continue
            if d.get(field) != v:
                out.append(("built_wide/%s/%s" % (name, field), "%s built with %s=%#x: its CDB %s decodes to %s=%r" % (name, arg, v, bytes(cmd.cdb).hex(), field, d.get(field))))
    return out


def check_entry_edit(name):
    """a user corrects ONE entry of a class's layout after the class has been in use (SBC-4 widened GROUP NUMBER; a field moved):
    replaced under its key, or its [mask, offset] list edited in place - encode and decode follow the table as it now stands"""
    cls, inst, op = fresh_instance(name)
    ln = S.CLASSES[name]["length"]
    free = [i for i in range(ln) if not (S.covered_mask(name) >> (8 * (ln - 1 - i))) & 0xFF]
    narrow = [(f, b, msb, w) for (f, b, msb, w) in lib_fields(name) if f != "opcode" and w <= 8 and f in cls._cdb_bits and len(cls._cdb_bits[f]) == 2]
    if not free or not narrow:
        return []
    f, b, msb, w = narrow[-1]
    byte = free[-1]
    vals = base_of(name, "zeros")
    cls.unmarshall_cdb(cls.marshall_cdb(dict(vals)))          # the class has been used
    vals[f] = (1 << w) - 1
    want = bytearray(spec_bytes(name, dict(vals, **{f: 0})))
    want[byte] = (1 << w) - 1
    out = []
    table = cls._cdb_bits
    old_entry = table[f]
    old_copy = list(old_entry)
    for how in ("replaced under its key", "edited in place"):
        try:
            if how == "replaced under its key":
                table[f] = [(1 << w) - 1, byte]
            else:
                table[f] = old_entry
                old_entry[0], old_entry[1] = (1 << w) - 1, byte
            got = bytes(cls.marshall_cdb(dict(vals)))
            dec = cls.unmarshall_cdb(bytearray(want)).get(f)
        except Exception as e:   # noqa: BLE001
            got, dec = "raised %s: %s" % (type(e).__name__, e), None
        finally:
            old_entry[0], old_entry[1] = old_copy
            table[f] = old_entry
        if got != bytes(want) or dec != (1 << w) - 1:
            out.append(("entry_edit/%s" % name, "%s: entry %r moved to byte %d (%s) after the class was used: encode gives %s (expected %s), decode gives %r"
                        % (name, f, byte, how, got.hex() if isinstance(got, bytes) else got, bytes(want).hex(), dec)))
    return out


def check_override(name):
    """a derived command class that overrides the codec pair (a field the [mask, offset] notation cannot express): CDBs the library builds
    for it - constructor, build_cdb - go through the overridden encoder, so its decoder stays their inverse"""
    cls, inst, op = fresh_instance(name)
    ln = S.CLASSES[name]["length"]
    base_m, base_u = cls.marshall_cdb.__func__, cls.unmarshall_cdb.__func__

    class Derived(cls):
        @classmethod
        def marshall_cdb(klass, cdb):
            r = base_m(klass, cdb)        # (no super(): the library's metaclass re-creates the class, the implicit __class__ cell would not match)
            r[ln - 1] ^= 0x5A
            return r

        @classmethod
        def unmarshall_cdb(klass, cdb):
            c = bytearray(cdb)
            c[ln - 1] ^= 0x5A
            return base_u(klass, c)
    out = []
    kw = CS.build_kwargs(name, CS.baseline(name), ata_blocksize=512 if name in S.ATA_LBA_BYTES else None)
    try:
        c = Derived(op, **kw)
        built = bytes(c.cdb)
        fields = Derived.unmarshall_cdb(built)
        direct = bytes(Derived.marshall_cdb(dict(fields)))
        again = bytes(c.build_cdb(**fields))
    except Exception as e:   # noqa: BLE001
        return [("override/raises/%s" % name, "%s with an overridden codec pair raised %s: %s" % (name, type(e).__name__, e))]
    plain = bytes(cls(op, **kw).cdb)
    if built != direct or again != direct or built[ln - 1] != plain[ln - 1] ^ 0x5A:
        out.append(("override/%s" % name, "%s with marshall_cdb/unmarshall_cdb overridden in a subclass: constructor built %s, build_cdb %s, the subclass's marshall_cdb gives %s"
                    % (name, built.hex(), again.hex(), direct.hex())))
    return out


def check_extension(name):
    """a user extends a class's layout by re-binding the table with one more field (the CONTROL byte the shipped layouts leave out):
    encode (class level and through an instance) and decode must all follow the table that is in place"""
    cls, inst, op = fresh_instance(name)
    ln = S.CLASSES[name]["length"]
    free = [i for i in range(ln) if not (S.covered_mask(name) >> (8 * (ln - 1 - i))) & 0xFF]
    if not free:
        return []
    byte = free[-1]
    old = cls.__dict__.get("_cdb_bits", None)
    inherited = old is None
    table = dict(cls._cdb_bits)
    table["x_control"] = [0xFF, byte]
    out = []
    try:
        cls._cdb_bits = table
        vals = base_of(name, "zeros")
        vals["x_control"] = 0xA5
        want = bytearray(spec_bytes(name, {k: v for k, v in vals.items() if k != "x_control"}))
        want[byte] = 0xA5
        got = {}
        for label, fn in (("marshall_cdb", lambda: cls.marshall_cdb(dict(vals))), ("build_cdb on an instance", lambda: inst.build_cdb(**vals))):
            try:
                got[label] = bytes(fn())
            except Exception as e:   # noqa: BLE001
                got[label] = "raised %s: %s" % (type(e).__name__, e)
            if got[label] != bytes(want):
                out.append(("extension/%s" % name, "%s with the layout extended by a field in byte %d: %s gives %s, expected %s"
                            % (name, byte, label, got[label].hex() if isinstance(got[label], bytes) else got[label], bytes(want).hex())))
        d = cls.unmarshall_cdb(bytearray(want))
        if d.get("x_control") != 0xA5:
            out.append(("extension/%s" % name, "%s with the layout extended: decoding %s gives x_control=%r" % (name, bytes(want).hex(), d.get("x_control"))))
    finally:
        if inherited:
            del cls._cdb_bits
        else:
            cls._cdb_bits = old
    return out


def check_derived_layout(name):
    """a command class derived from a library class with a layout of its OWN (declared in the class body): one multi-bit field of
    the parent re-cut into two fields under new names, the parent's name dropped.  The derived class's codec follows the derived
    table only: decode returns exactly the derived names, encode(decode(b)) == b, the parent class is unaffected"""
    cls, inst, op = fresh_instance(name)
    parent = dict(cls._cdb_bits)
    # the widest field that has at least two bits and lies in one byte or more
    cand = [(f, b, msb, w) for (f, b, msb, w) in lib_fields(name) if w >= 2 and f != "opcode"]
    if not cand:
        return []
    f, b, msb, w = max(cand, key=lambda t: t[3])
    ln = S.CLASSES[name]["length"]
    # absolute bit positions (bit 0 = LSB of the last byte) of the field
    top = (ln - 1 - b) * 8 + msb
    lo = top - w + 1
    split = lo + w // 2

    def entry(hi_bit, lo_bit):
        first_byte = ln - 1 - hi_bit // 8
        last_byte = ln - 1 - lo_bit // 8
        nbytes = last_byte - first_byte + 1
        mask = ((1 << (hi_bit - lo_bit + 1)) - 1) << (lo_bit - (ln - 1 - last_byte) * 8)
        assert mask < (1 << (8 * nbytes))
        return [mask, first_byte]
    table = {k: v for k, v in parent.items() if k != f}
    table["x_hi"] = entry(top, split)
    table["x_lo"] = entry(split - 1, lo)
    try:
        derived = type(cls)("Derived" + name, (cls,), {"_cdb_bits": table})
    except Exception as e:   # noqa: BLE001
        return [("derived_layout/%s" % name, "deriving a class from %s with its own _cdb_bits raised %s: %s" % (name, type(e).__name__, e))]
    out = []
    vals = base_of(name, "ones")
    want = spec_bytes(name, vals)
    try:
        d = derived.unmarshall_cdb(bytearray(want))
        back = bytes(derived.marshall_cdb(dict(d)))
    except Exception as e:   # noqa: BLE001
        return [("derived_layout/%s" % name, "Derived%s (field %s re-cut into x_hi / x_lo): round trip raised %s: %s" % (name, f, type(e).__name__, e))]
    if set(d) != set(table):
        out.append(("derived_layout/keys/%s" % name, "Derived%s declares the fields %r, decoding returns %r" % (name, sorted(table), sorted(d))))
    hi_w = top - split + 1
    if d.get("x_hi") != (vals[f] >> (w - hi_w)) or d.get("x_lo") != (vals[f] & ((1 << (w - hi_w)) - 1)):
        out.append(("derived_layout/values/%s" % name, "Derived%s: %s=%#x re-cut decodes to x_hi=%r x_lo=%r" % (name, f, vals[f], d.get("x_hi"), d.get("x_lo"))))
    if back != want:
        out.append(("derived_layout/reencode/%s" % name, "Derived%s: marshall_cdb(unmarshall_cdb(%s)) = %s" % (name, want.hex(), back.hex())))
    if dict(cls._cdb_bits) != parent:
        out.append(("derived_layout/parent_changed/%s" % name, "deriving a class changed %s._cdb_bits" % name))
    return out


def run_case(case):
    if case[0] == "derived_layout":
        return check_derived_layout(case[1])
    if case[0] == "extension":
        return check_extension(case[1])
    if case[0] == "override":
        return check_override(case[1])
    if case[0] == "entry_edit":
        return check_entry_edit(case[1])
    if case[0] == "built_wide":
        cls, inst, op = fresh_instance(case[1])
        return check_built_wide(case[1], cls, op)
    if case[0] == "first-use":
        return [x for (_, _, v) in run_first_use(case[1]) for x in v]
    if case[0] == "scan":
        from vf.props import c09
        return c09.run_scan(case[1])
    if case[0] == "reentrant":
        from vf.props import c09
        return c09.run_reentrant(case[1], case[2])[0]
    name, mode = case[0], case[1]
    cls, inst, op = fresh_instance(name)
    if mode == "assign":
        _, _, basekind, devs = case
        base = base_of(name, basekind)
        vals = dict(base)
        vals.update(devs)
        return check_assignment(name, cls, vals, base, tuple(devs))
    if mode == "built":
        _, _, point = case
        return check_built(name, cls, op, point)
    raise ValueError(mode)


def check_built(name, cls, op, point):
    c = S.CLASSES[name]
    kw = CS.build_kwargs(name, point, ata_blocksize=512 if name in S.ATA_LBA_BYTES else None)
    try:
        cmd = cls(op, **kw)
    except Exception as e:
        return [("construct/%s" % name, "%s(%r) raised %s: %s" % (name, point, type(e).__name__, e))]
    cdb = bytes(cmd.cdb)
    d = cls.unmarshall_cdb(bytearray(cdb))
    exp = CS.expected_fields(name, point)
    exp["opcode"] = op.value
    for f in c["computed"]:
        exp[f] = len(cmd.dataout)
    if name in S.ATA_LBA_BYTES:
        # dictionary-level LBA is the field in CDB byte order; compare through the spec decoder instead
        exp["lba"] = d.get("lba")
        if S.decode(name, cdb)["lba"] != point.get("lba", 0):
            return []          # C01's subject
    out = []
    for f, v in exp.items():
        if d.get(f) != v:
            out.append(("built_decode/%s/%s" % (name, f), "%s(%r).cdb=%s decodes %s=%r, built from %r" % (name, point, cdb.hex(), f, d.get(f), v)))
    m = bytes(cls.marshall_cdb(d))
    if m != cdb:
        out.append(("built_reencode/%s" % name, "%s: marshall_cdb(unmarshall_cdb(%s)) = %s" % (name, cdb.hex(), m.hex())))
    # re-encoding through the command object itself, repeatedly: same fields -> same bytes, and the object's CDB stays what it was
    for n in (1, 2):
        try:
            again = bytes(cmd.build_cdb(**d))
        except Exception as e:   # noqa: BLE001
            out.append(("rebuild_raises/%s" % name, "%s(%r).build_cdb(**decoded) raised %s: %s" % (name, point, type(e).__name__, e)))
            break
        if again != cdb:
            out.append(("rebuild/%s" % name, "%s(%r): build_cdb #%d with the decoded fields gives %s, the command's CDB is %s" % (name, point, n + 1, again.hex(), cdb.hex())))
            break
    return out


def replay(case):
    return run_case(case)


def run_partition(part, tier, seed):
    acc = Acc(seed)
    name = part[0]
    if name == "reentrant":
        # a second command built, decoded and re-encoded in the SAME thread between two library lines of the first (signal handler,
        # finalizer), at every line in turn - classes of all four CDB length groups (shared with C09)
        from vf.props import c09
        for b in REENTRANT_CLASSES:
            case = ["reentrant", part[1], b]
            acc.case(case, nontrivial=True, key=tuple(case))
            v, npoints = c09.run_reentrant(part[1], b, acc)
            acc.add("reentrancy_points", npoints)
            for k, what in v:
                acc.violation(k, what, case)
            acc.outcome((tuple(case), npoints, tuple(k for k, _ in v)))
        return acc
    if name == "scan":
        # many distinct operation codes through the codec in ONE process (an opcode scanner): build / decode / re-encode of ten classes
        # observed before and after every 32 of the 256 values (shared with C09)
        from vf.props import c09
        case = ["scan", part[1]]
        acc.case(case, nontrivial=True, key=tuple(case))
        v = c09.run_scan(part[1])
        for k, what in v:
            acc.violation(k, what, case)
        acc.outcome((tuple(case), tuple(k for k, _ in v)))
        return acc
    if name == "first-use":
        case = ["first-use", part[1]]
        for (n_, bk, v) in run_first_use(part[1]):
            acc.case(case, nontrivial=True, key=("first-use", part[1], n_, bk))
            for k, what in v:
                acc.violation(k, what, case)
            acc.outcome(("first-use", part[1], n_, bk, tuple(k for k, _ in v)))
        return acc
    b = bounds(tier)
    cls, inst, op = fresh_instance(name)
    flds = lib_fields(name)
    alph = {f: bits.alphabet(w) for (f, _, _, w) in flds}
    # the operation code ranges over the codes of the class's own CDB-length group (a code of another group is
    # another command with another length, not an in-range value of this command's field)
    from vf.spec import opcodes as T
    ln = S.CLASSES[name]["length"]
    alph["opcode"] = [v for v in range(256) if T.cdb_length(v) == ln]
    for basekind in ("zeros", "ones"):
        base = base_of(name, basekind)
        for r in range(0, b["k"] + 1):
            for combo in itertools.combinations([f[0] for f in flds], r):
                for values in itertools.product(*[[v for v in alph[f] if v != base[f]] for f in combo]):
                    devs = dict(zip(combo, values))
                    vals = dict(base)
                    vals.update(devs)
                    case = [name, "assign", basekind, devs]
                    acc.case(case, nontrivial=r > 0 or basekind == "ones", key=(name, basekind, tuple(devs.items())))
                    try:
                        v = check_assignment(name, cls, vals, base if r else None, combo)
                    except Exception as e:
                        v = [("raises/%s" % name, "%s: %s %r on %r" % (name, type(e).__name__, e, devs))]
                    for k, what in v:
                        acc.violation(k, what, case)
                    acc.outcome((name, tuple(sorted(vals.items())), tuple(k for k, _ in v)))
    for point, r in CS.points(name, b["k_built"], b["maxbuf"]):
        case = [name, "built", point]
        acc.case(case, nontrivial=r > 0, key=(name, "built", tuple(sorted(point.items()))))
        try:
            v = check_built(name, cls, op, point)
        except Exception as e:
            v = [("raises/%s" % name, "%s: %s %r on %r" % (name, type(e).__name__, e, point))]
        for k, what in v:
            acc.violation(k, what, case)
        acc.outcome((name, "built", tuple(sorted(point.items())), tuple(k for k, _ in v)))
    case = ["entry_edit", name]
    acc.case(case, nontrivial=True, key=("entry_edit", name))
    try:
        v = check_entry_edit(name)
    except Exception as e:
        v = [("raises/%s" % name, "%s: entry edit check %s %r" % (name, type(e).__name__, e))]
    for k, what in v:
        acc.violation(k, what, case)
    acc.outcome((name, "entry_edit", tuple(k for k, _ in v)))
    case = ["override", name]
    acc.case(case, nontrivial=True, key=("override", name))
    try:
        v = check_override(name)
    except Exception as e:
        v = [("raises/%s" % name, "%s: override check %s %r" % (name, type(e).__name__, e))]
    for k, what in v:
        acc.violation(k, what, case)
    acc.outcome((name, "override", tuple(k for k, _ in v)))
    case = ["built_wide", name]
    acc.case(case, nontrivial=True, key=("built_wide", name))
    try:
        v = check_built_wide(name, cls, op)
    except Exception as e:
        v = [("raises/%s" % name, "%s: wide check %s %r" % (name, type(e).__name__, e))]
    for k, what in v:
        acc.violation(k, what, case)
    acc.outcome((name, "built_wide", tuple(k for k, _ in v)))
    case = ["derived_layout", name]
    acc.case(case, nontrivial=True, key=("derived_layout", name))
    try:
        v = check_derived_layout(name)
    except Exception as e:
        import traceback
        v = [("raises/%s" % name, "%s: derived-layout check %s" % (name, traceback.format_exc()[-400:]))]
    for k, what in v:
        acc.violation(k, what, case)
    acc.outcome((name, "derived_layout", tuple(k for k, _ in v)))
    case = ["extension", name]
    acc.case(case, nontrivial=True, key=("extension", name))
    try:
        v = check_extension(name)
    except Exception as e:
        v = [("raises/%s" % name, "%s: extension check %s %r" % (name, type(e).__name__, e))]
    for k, what in v:
        acc.violation(k, what, case)
    acc.outcome((name, "extension", tuple(k for k, _ in v)))
    return acc
