"""C13 - each facade call sends exactly one command and decodes what the device returned."""
import copy
import os
import inspect
import itertools

from vf import cmdspace as CS
from vf import facade as F
from vf.props import c04
from vf.runner import Acc
from vf.sim import registry
from vf.spec import cdb as S
from vf.spec import opcodes as T
from vf.spec import responses as R

ID = "C13"
OPT_QUICK_ALL = True      # every partition also in a child interpreter started with -O
LEVEL = "exploration"
TECHNIQUE = "exhaustive enumeration of facade method x command set x every subset of optional keyword arguments x device-provided buffer contents over a recording device; call count, CDB (independent spec decoder), buffer identity and decode-after-execute ordering are checked on every call"
RULE = ("38 facade methods x every command set whose table offers the command x every subset of the optional keyword arguments (from "
        "inspect.signature of the command class; each supplied argument takes 2 non-default values) x caller buffers of kind bytearray / bytes / memoryview window x 2-3 well-formed device responses chosen to "
        "match the request and 8 truncated ones (a length field announcing more than was transferred: ~500 bytes at offsets 0-1, 0-3, 4-7, 2-3, FFh at 4, FFFEh and 10000h at 0; all bytes FFh); plus every method x set x 13 exception types (incl. KeyboardInterrupt, SystemExit, GeneratorExit) raised by the device *after* it took the command (exactly one submission, the same exception object reaches the caller) (VPD page by page code, mode page by page code, PR IN data by service action, disc information by data type, READ CD "
        "sectors by selection bits); READ/WRITE(10,12,16) through the real SCSIDevice / ISCSIDevice and the stand-in bindings with transfers of {1,2,7Fh,80h,7FFFh,8000h,8001h,40000,FFFFh} blocks of 512 bytes (one submission, whole buffers, iSCSI expected transfer length = buffer length); 11 methods (reads and writes) as the first call after a re-plug, plain or with the re-open failing once (EACCES/EMFILE/EBUSY), on a real SCSIDevice: one submission to the node now at the path; two facades over two devices (different sets, block sizes 512 / 4096) used alternately A.m, B.m', A.m for every pair of methods and offering sets: own device, own operation code, own block size, same CDB for A before and after; the 12 script invocations shipped under tools/ and examples/ (inquiry, getlbastatus, mtx status/load/unload against a simulated changer, read16, read_cd, read_disc_information, readcapacity10/16, reportluns, reportpriority) run as a user runs them on both transports: no exception, CDB lengths, printed values agree with the device. after every successful call: decode the returned command again, submit it again, repeat the call on the same facade (same CDB, one submission each, equal result, fresh buffers). Non-trivial = at least one optional argument supplied or a non-SPC command set; distinct = distinct (method, "
        "set, argument dict, response). Every method x set over a real device of either transport twice, with all clocks of the time module advanced by {0,1,299,301,3600,10^7} s in between: one command each, same CDB, the attached set's operation code. Every method x set x transport called 260 times in a row (thorough: 1100; 66000 for six methods): every call one command, CDB and result of the first call. Every method x set through a facade subclass that overrides execute() (delegating, returning nothing): same outcome as the plain facade, override entered once. Every method x set over caller-made device objects whose truth value is False (__bool__, __len__): probed on attach, one command with the selected set's opcode. Second attach to the SAME device object after the node was re-plugged with a unit of another type (SG_IO) or after the caller changed dev.opcodes (both transports) x 20 ordered pairs of sets x every method either offers: one INQUIRY, then the opcode of the set of the device now there (or refusal with nothing sent).")
ASSUMPTIONS = [
    "the recording device is a plain object with opcodes/execute/close: it notes call count, a copy of the CDB, id() of both buffers and whether cmd.result was already populated, then fills data-in in place",
    "decode *correctness* is C04's subject: here cmd.result must equal the decoder applied separately to a copy of what the device wrote (same keyword arguments), (the evidence counts the cases where that differs from the decode of an untouched zero buffer, i.e. where decoding before executing would be caught)",
    "operation codes are compared with vf/spec/opcodes.py; argument placement with vf/spec/cdb.py",
]
OPTVALS = {
    "alloclen": [64, 252], "alloc_len": [64, 252], "evpd": [1, 1], "page_code": [0x83, 0xB0], "sub_page_code": [1, 0xFF], "dbd": [1, 1], "pc": [1, 3],
    "llbaa": [1, 1], "rdprotect": [1, 7], "wrprotect": [1, 7], "dpo": [1, 1], "fua": [1, 1], "rarc": [1, 1], "group": [1, 0x1F], "immed": [1, 1],
    "anchor": [1, 1], "unmap": [1, 1], "ndob": [1, 1], "invert": [1, 1], "inv1": [1, 1], "inv2": [1, 1], "rng": [1, 1], "fast": [1, 1],
    "prevent": [1, 3], "report": [1, 0x11], "priority": [1, 3], "data_format": [1, 1], "element_type": [2, 4], "voltag": [1, 1], "curdata": [0, 0],
    "dvcid": [1, 1], "est": [2, 4], "dap": [1, 1], "mcsb": [0x02, 0x1F], "c2ei": [1, 2], "scsb": [2, 4],
    "blocksize": [512, 4096], "extra_tl": [1, 2], "ck_cond": [1, 1], "device": [0xA0, 0xFF], "control": [1, 0xFF], "extend": [0, 0],
    "data": ["BUF", "MV"],
    # PERSISTENT RESERVE OUT parameter items
    "reservation_key": [1, 0xFFFFFFFFFFFFFFFF], "service_action_reservation_key": [2, 0x8000000000000000], "aptpl": [1, 1], "all_tg_pt": [1, 1],
    # EXTENDED COPY
    "list_identifier": [1, 0xFF], "sequential_striped": [1, 1], "nrcr": [1, 1], "list_id_usage": [1, 3], "g_sense": [1, 1],
    "inline_data": ["INLINE", "INLINE"],
}
EXTRA_OPTIONAL = {"persistentreserveout": ["reservation_key", "service_action_reservation_key", "aptpl", "all_tg_pt"]}
SKIP_OPTIONAL = {"extendedcopy4": {"target_descriptor_list", "segment_descriptor_list"}, "extendedcopy5": {"cscd_descriptor_list", "segment_descriptor_list"}}
XC_ARGS = {"list_identifier": None, "sequential_striped": None, "nrcr": None, "priority": None, "list_id_usage": None, "g_sense": None,
           "immed": None, "inline_data": None}


class RecDev(object):
    def __init__(self, opcodes):
        self.opcodes = opcodes
        self.calls = []
        self.response = None

    def execute(self, cmd, en_raw_sense=False):
        rec = {"cdb": bytes(cmd.cdb), "datain": cmd.datain, "dataout": cmd.dataout, "result_at_call": copy.copy(cmd.result), "raw": en_raw_sense}
        self.calls.append(rec)
        if self.response is not None and cmd.datain is not None:
            n = min(len(self.response), len(cmd.datain))
            cmd.datain[:n] = self.response[:n]
        rec["datain_after"] = bytes(cmd.datain) if cmd.datain is not None else None
        if self.fault is not None:
            raise self.fault

    fault = None

    def close(self):
        pass


def optional_params(method):
    name = F.FACADE[method][0]
    cls = CS.get_class(name)
    sig = inspect.signature(cls.__init__)
    given = set(F.FACADE[method][2]) | {"self", "opcode"}
    opts = []
    for p in sig.parameters.values():
        if p.name in given or p.kind in (p.VAR_KEYWORD, p.VAR_POSITIONAL):
            continue
        if p.name in SKIP_OPTIONAL.get(method, ()):
            continue
        if p.name == "blocksize" and name in F_BLOCK:
            continue
        if p.default is inspect.Parameter.empty and p.name not in OPTVALS:
            continue
        if p.default is inspect.Parameter.empty:
            continue
        opts.append(p.name)
    opts += EXTRA_OPTIONAL.get(method, [])
    if method == "inquiry":
        opts = ["evpd", "page_code", "alloclen"]
    if method == "readdiscinformation":
        opts = ["alloc_len"]
    if method in ("extendedcopy4", "extendedcopy5"):
        import pyscsi.pyscsi.scsi as scsimod
        fs = inspect.signature(getattr(scsimod.SCSI, method))
        opts = [p for p in fs.parameters if p != "self" and p not in SKIP_OPTIONAL[method]]
    return opts


F_BLOCK = {"Read10", "Read12", "Read16", "Write10", "Write12", "Write16", "WriteSame10", "WriteSame16"}


OVERSIZE = {2: (0, b"\x01\xf2"), 3: (0, b"\x00\x00\x01\xf8"), 4: (4, b"\x00\x00\x01\xf0"), 5: (4, b"\xff"), 6: (2, b"\x01\xf0"), 7: None,
            8: (0, b"\xff\xfe"), 9: (0, b"\x00\x01\x00\x00")}


def response_for(method, kw, variant):
    """a well-formed device response matching the request, or None for commands without data-in.
    Variants 2-9: the same response with one of its length fields announcing far more than was transferred (a device that has more
    data than the allocation length reports the full length and truncates the transfer), variant 7: every byte FFh."""
    if variant >= 2:
        base = response_for(method, kw, 0)
        if base is None or method in ("read10", "read12", "read16", "readcd") or method.startswith("atapassthrough"):
            return base
        if OVERSIZE[variant] is None:
            return b"\xff" * len(base)
        off, patch = OVERSIZE[variant]
        b = bytearray(base)
        if len(b) >= off + len(patch):
            b[off:off + len(patch)] = patch
        return bytes(b)
    if method == "inquiry":
        if kw.get("evpd"):
            pc = kw.get("page_code", 0)
            if pc == 0x83:
                return R.vpd_83([c04.DESIGNATORS[i] for i in ((5, 9) if variant else (8,))])
            if pc == 0xB0:
                return R.vpd_fixed(0xB0, {"max_xfer_len": 0x10000 + variant, "max_ws_len": 1 << 33, "wsnz": 1})
            return R.vpd(0x00, bytes([0x00, 0x80, 0x83][: 2 + variant]))
        return R.std_inquiry({"peripheral_device_type": 0, "version": 6, "cmdque": 1, "tpgs": variant + 1},
                             {"t10_vendor_identification": b"VERIFVND", "product_identification": b"PRODUCT-ID-16-BY", "product_revision_level": b"R%03d" % variant})
    if method in ("modesense6", "modesense10"):
        page = kw.get("page_code", 0x0A)
        page = page if (page, None) in R.MODE_PAGES else 0x0A
        fields, _ = R.MODE_PAGES[(page, None)]
        return R.mode_data(method.endswith("10"), {"medium_type": 1 + variant, "device_specific_parameter": 0x10},
                           b"\x11" * (8 * variant), [R.mode_page(page, None, {fields[0][0]: 1, fields[-1][0]: 0x1234})])
    if method == "readcapacity10":
        return R.put(bytes(8), R.READCAP10, {"returned_lba": 0x1000 + variant, "block_length": 512})
    if method == "readcapacity16":
        return R.put(bytes(32), R.READCAP16, {"returned_lba": (1 << 40) + variant, "block_length": 4096, "lbpme": 1, "p_type": 1})
    if method == "getlbastatus":
        return R.get_lba_status([{"lba": 5, "num_blocks": 8, "p_status": 1}, {"lba": 13, "num_blocks": 1, "p_status": 0}][: 1 + variant])
    if method == "reportluns":
        return R.report_luns([0, 0x0001000000000000, 0x4002000000000000][: 1 + 2 * variant])
    if method == "reporttargetportgroups":
        return R.rtpg([({"asymmetric_access_state": 1, "target_port_group": 7, "pref": 1}, [1, 2])][: 1], extended=bool(variant), transition_time=9)
    if method == "reportpriority":
        return R.report_priority([({"current_priority": 3, "rtpi": 2}, R.transport_id(c04.TIDS[3 * variant]))])
    if method == "readelementstatus":
        return R.read_element_status(0x10, 2, [(2, variant, 0, [{"element_address": 0x10, "full": 1, "access": 1}, {"element_address": 0x11}])])
    if method == "readdiscinformation":
        dt = kw.get("data_type", 0)
        return R.disc_information(dt if dt in (0, 1, 2) else 0, {"disc_status": 2, "number_of_sessions": 0x102} if dt == 0 else {})
    if method == "persistentreservein":
        sa = kw.get("service_action", 0)
        if sa == 0:
            return R.pr_read_keys(5, [1, 2][: 1 + variant])
        if sa == 1:
            return R.pr_read_reservation(5, {"reservation_key": 9, "scope": 0, "type": 5} if variant else None)
        if sa == 2:
            return R.pr_report_capabilities({"ptpl_c": 1, "tmv": 1, "allow_commands": 2}, {"wr_ex": 1, "ex_ac_ar": variant})
        return R.pr_read_full_status(5, [({"reservation_key": 3, "r_holder": 1, "scope": 0, "type": 5, "relative_target_port_id": 1},
                                          R.transport_id(c04.TIDS[3 * variant]))])
    if method == "readcd":
        est, mcsb = kw.get("est", 0), kw.get("mcsb", 0)
        if est in (1, 2, 3, 4, 5):
            try:
                return c04.readcd_response(est, mcsb, kw.get("c2ei", 0), kw.get("scsb", 0), kw.get("lba", 0), kw.get("tl", 1))[0]
            except Exception:
                pass
        return bytes(range(256)) * 12
    if method in ("read10", "read12", "read16"):
        return bytes([0x40 + variant]) * 512
    if method.startswith("atapassthrough"):
        return bytes([0x77]) * 512
    return None


def decoder_kwargs(method, kw):
    if method == "inquiry":
        return {"evpd": kw.get("evpd", 0)}
    if method == "readcd":
        return dict(kw)
    return {}


FAULTS = {"TypeError": TypeError, "ValueError": ValueError, "OSError": OSError, "KeyError": KeyError, "AttributeError": AttributeError,
          "RuntimeError": RuntimeError, "IndexError": IndexError, "NotImplementedError": NotImplementedError, "MemoryError": MemoryError,
          "StopIteration": StopIteration,
          # ... and what is no Exception at all: the user's Ctrl-C, an exit request, a closing generator (they pass through everything)
          "KeyboardInterrupt": KeyboardInterrupt, "SystemExit": SystemExit, "GeneratorExit": GeneratorExit}


def run_fault(case, obs=None):
    """the device raises *after* having taken the command: the error must reach the caller, and the command must not be resubmitted"""
    _, method, st, fault = case
    from pyscsi.pyscsi.scsi import SCSI
    import pyscsi.pyscsi.scsi_enum_command as E
    dev = RecDev(getattr(E, st))
    s = SCSI(dev, 512)
    dev.opcodes = getattr(E, st)
    del dev.calls[:]
    exc = FAULTS[fault]("device fault after submission")
    dev.fault = exc
    dev.response = None
    out = []
    where = "%s on %s, device raises %s after taking the command" % (method, st, fault)
    try:
        F.call(s, method)
        err = None
    except BaseException as e:   # noqa: BLE001
        err = e
    if obs is not None:
        obs.append((len(dev.calls), type(err).__name__))
    if len(dev.calls) != 1:
        out.append(("%s/fault/call_count" % method, "%s: the device was handed the command %d times" % (where, len(dev.calls))))
    if err is not exc:
        out.append(("%s/fault/error_not_passed_on" % method, "%s: the caller saw %r" % (where, err)))
    return out


XFER_BLOCKS = [1, 2, 0x7F, 0x80, 0x7FFF, 0x8000, 0x8001, 40000, 0xFFFF]      # x 512 bytes: up to and across 64 KiB and 16 MiB


def run_transport(case, obs=None):
    """the facade over the REAL device classes and the stand-in bindings: one command reaches the target, carrying the caller-visible
    buffers whole (the binding is told the full length), and the result is what the target wrote"""
    from vf import harness
    _, tr, method, nblk = case
    out = []
    where = "%s of %d blocks over %s" % (method, nblk, tr)
    rig = harness.Rig(tr, 0x00)
    try:
        marks = {}

        def responder(cdb):
            return None
        rig.target.responder = responder
        s = rig.facade(512)
        n0 = len(rig.target.log)
        del registry.iscsi_tasks[:]
        lba = 5
        if method.startswith("read"):
            orig = rig.target.command

            def command(cdb, dataout, datain, transport):
                r = orig(cdb, dataout, datain, transport)
                if datain is not None and len(datain):
                    datain[0] = 0xA1
                    datain[len(datain) - 1] = 0xA2
                    marks["len"] = len(datain)
                return r
            rig.target.command = command
            cmd = getattr(s, method)(lba, nblk)
            buf, other = cmd.datain, cmd.dataout
        else:
            data = bytearray(nblk * 512)
            data[0], data[-1] = 0xB1, 0xB2
            cmd = getattr(s, method)(lba, nblk, data)
            buf, other = cmd.dataout, cmd.datain
            if buf is not data:
                out.append(("transport/caller_buffer", "%s: the command does not carry the caller's buffer" % where))
        new = rig.target.log[n0:]
        if len(new) != 1:
            out.append(("transport/submissions", "%s: %d commands reached the target" % (where, len(new))))
            return out
        rec = new[0]
        want = nblk * 512
        if method.startswith("read"):
            if rec["datain_id"] != id(cmd.datain) or rec["datain_len"] != want or len(cmd.datain) != want:
                out.append(("transport/datain", "%s: the target was given a data-in buffer of %r bytes (same object: %s), the request covers %d"
                            % (where, rec["datain_len"], rec["datain_id"] == id(cmd.datain), want)))
            elif (cmd.datain[0], cmd.datain[-1]) != (0xA1, 0xA2):
                out.append(("transport/result", "%s: first/last byte written by the device do not show in the command's data-in buffer" % where))
        else:
            if rec["dataout_id"] != id(cmd.dataout) or len(rec["dataout"]) != want or rec["dataout"][:1] + rec["dataout"][-1:] != b"\xb1\xb2":
                out.append(("transport/dataout", "%s: the target was given %d bytes of data-out (same object: %s), the request covers %d"
                            % (where, len(rec["dataout"]), rec["dataout_id"] == id(cmd.dataout), want)))
        if tr == "iscsi":
            if len(registry.iscsi_tasks) != 1:
                out.append(("transport/iscsi_tasks", "%s: %d iSCSI tasks" % (where, len(registry.iscsi_tasks))))
            else:
                t = registry.iscsi_tasks[0]
                wd = (1, want) if method.startswith("read") else (2, want)
                if (t["dir"], t["xferlen"]) != wd:
                    out.append(("transport/iscsi_xferlen", "%s: iSCSI task direction/expected transfer length %r, the buffers hold %r"
                                % (where, (t["dir"], t["xferlen"]), wd)))
        if obs is not None:
            obs.append((rec["cdb"].hex(), want))
    finally:
        rig.close()
    return out


RECOVERY_METHODS = ["testunitready", "inquiry", "readcapacity10", "readcapacity16", "read10", "reportluns", "modesense6", "write10", "write16", "writesame16", "modeselect6"]


def run_recovery(case, obs=None):
    """SG_IO device whose node is replaced; the re-open fails once (EACCES / EMFILE), the caller sees that error; the NEXT facade call
    must again hand exactly one command to the device (the node now at the path) and decode its answer"""
    import builtins

    from vf import harness
    _, method, fault_errno = case
    out = []
    if fault_errno == -1:
        # replug detection switched off: the node may vanish or be replaced, the commands keep going through the handle opened at first
        rig = harness.Rig("sgio", 0x00, detect_replugged=False)
        try:
            s = rig.facade(512)
            for step in ("unlinked", "replaced"):
                if step == "unlinked":
                    rig.node.unplug()
                else:
                    rig.node.plug()
                n0 = len(rig.target.log)
                where = "%s with replug detection off after the node was %s" % (method, step)
                try:
                    cmd = F.call(s, method)
                except Exception as e:   # noqa: BLE001
                    out.append(("recovery/detect_off_raises", "%s: raised %s: %s" % (where, type(e).__name__, e)))
                    continue
                if len(rig.target.log) - n0 != 1 or rig.target.log[-1]["cdb"] != bytes(cmd.cdb):
                    out.append(("recovery/detect_off_submissions", "%s: the device behind the original handle saw %d commands" % (where, len(rig.target.log) - n0)))
        finally:
            rig.close()
        return out
    rig = harness.Rig("sgio", 0x00)
    import pyscsi.pyscsi.scsi_device as devmod      # (after the rig: the first rig of a process re-imports the library against the stand-ins)
    armed = [False]

    def failing_open(file, *a, **k):
        if armed[0] and file == rig.node.path:
            armed[0] = False
            raise OSError(fault_errno, os.strerror(fault_errno), file)
        return builtins.open(file, *a, **k)
    try:
        s = rig.facade(512)
        s.testunitready()
        devmod.open = failing_open
        new = rig.node.plug()
        armed[0] = bool(fault_errno)
        where = "%s after a re-plug%s" % (method, " whose first re-open failed with errno %d" % fault_errno if fault_errno else "")
        if not fault_errno:
            s.testunitready()          # (the re-open happens here, without a fault)
            armed[0] = False
            oc = None
        try:
            if fault_errno:
                s.testunitready()
                oc = "returned normally"
        except OSError:
            oc = None
        except Exception as e:   # noqa: BLE001
            oc = "raised %s: %s" % (type(e).__name__, e)
        if armed[0]:
            return [("recovery/harness", "the library did not re-open the node after the re-plug (fault never fired)")]
        if oc is not None:
            out.append(("recovery/failed_open_not_reported", "%s: the call during which open() failed %s" % (where, oc)))
        n0 = len(new.log)
        try:
            cmd = F.call(s, method)
        except Exception as e:   # noqa: BLE001
            out.append(("recovery/next_call_raises", "%s: the next call raised %s: %s" % (where, type(e).__name__, e)))
            return out
        if len(new.log) - n0 != 1:
            out.append(("recovery/submissions", "%s: the next call reached the new node's device %d times" % (where, len(new.log) - n0)))
        elif new.log[-1]["cdb"] != bytes(cmd.cdb) or (len(cmd.datain) and new.log[-1]["datain_id"] != id(cmd.datain)):
            out.append(("recovery/other_command", "%s: the device saw CDB %s, the returned command carries %s" % (where, new.log[-1]["cdb"].hex(), bytes(cmd.cdb).hex())))
        if obs is not None:
            obs.append((method, len(new.log) - n0))
    finally:
        if "open" in vars(devmod):
            del devmod.open
        rig.close()
    return out


IDLE_GAPS = (0, 1, 299, 301, 3600, 10 ** 7)     # seconds of no use between two calls (all clocks of the time module are owned by the harness)


class FakeClock(object):
    NAMES = ("monotonic", "time", "perf_counter")

    def __init__(self):
        import time
        self.t = 1.0e6
        self.saved = {n: getattr(time, n) for n in self.NAMES + tuple(n + "_ns" for n in self.NAMES)}
        for n in self.NAMES:
            setattr(time, n, lambda self=self: self.t)
            setattr(time, n + "_ns", lambda self=self: int(self.t * 1e9))

    def restore(self):
        import time
        for n, f in self.saved.items():
            setattr(time, n, f)


def run_idle(case, obs=None):
    """the facade over a REAL device of either transport; the same call twice with the clocks advanced in between: both calls reach the
    target exactly once with the same CDB carrying the operation code of the attached device's command set"""
    from vf import harness
    _, tr, st, method, gap = case
    out = []
    clock = FakeClock()
    rig = None
    try:
        rig = harness.Rig(tr, F.SET_TO_TYPE[st])
        s = rig.facade(512)
        table = rig.dev.opcodes
        resp = response_for(method, dict(F.FACADE[method][2]), 0)
        rig.target.responder = lambda cdb: resp
        key = F.FACADE[method][1]
        lookup = "%s_OPCODE_%s" % (st.upper(), key) if key in ("9E", "A3") else key
        seen = []
        for i in (0, 1):
            n0 = len(rig.target.log)
            where = "%s on a %s %s device, %s" % (method, tr, st, "first call" if i == 0 else "same call after %d s without use" % gap)
            try:
                cmd = F.call(s, method)
                oc = ("ok", bytes(cmd.cdb))
            except Exception as e:   # noqa: BLE001
                oc = ("raised", type(e).__name__, str(e)[:80])
            new = rig.target.log[n0:]
            seen.append((oc, [r["cdb"] for r in new]))
            if len(new) != 1:
                out.append(("idle/submissions/%s" % method, "%s: %d commands reached the target (%s)" % (where, len(new), oc[:2])))
            elif new[0]["cdb"][0] != T.t10_value(st, lookup):
                out.append(("idle/opcode/%s" % method, "%s: opcode %#04x sent, the %s set assigns %#04x" % (where, new[0]["cdb"][0], st, T.t10_value(st, lookup))))
            if rig.dev.opcodes is not table:
                out.append(("idle/table_replaced", "%s: the device's command set is no longer the one selected at attach" % where))
            if i == 0:
                clock.t += gap
        if seen[0] != seen[1]:
            out.append(("idle/differs/%s" % method, "%s on a %s %s device: %r at first, %r after %d s without use" % (method, tr, st, seen[0][0][:2], seen[1][0][:2], gap)))
        if obs is not None:
            obs.append((seen[0][0][0], len(seen[0][1]), len(seen[1][1])))
    finally:
        if rig is not None:
            rig.close()
        clock.restore()
    return out


def run_subclass_facade(case, obs=None):
    """a facade class derived from SCSI that overrides execute() the way the release lets it (does its own bookkeeping, delegates to
    the inherited execute, returns nothing): every method still hands the command to the device exactly once, goes through the
    override exactly once, and returns the command with its result decoded - the same as the plain facade"""
    import pyscsi.pyscsi.scsi_enum_command as E
    from pyscsi.pyscsi.scsi import SCSI
    from vf.props.c09 import freeze
    _, method, st, kind = case

    class TracingSCSI(SCSI):
        trace = []

        def execute(self, cmd, en_raw_sense=False):
            self.trace.append(bytes(cmd.cdb))
            if kind == "kw":
                super().execute(cmd, en_raw_sense=en_raw_sense)
            else:
                SCSI.execute(self, cmd, en_raw_sense)
    outs = []
    for cls in (SCSI, TracingSCSI):
        dev = RecDev(getattr(E, st))
        s = cls(dev, 512)
        s.trace = []
        dev.opcodes = getattr(E, st)
        del dev.calls[:]
        del s.trace[:]
        dev.response = response_for(method, dict(F.FACADE[method][2]), 0)
        try:
            cmd = F.call(s, method)
            try:
                res = freeze(cmd.result)
            except Exception:   # noqa: BLE001
                res = None
            oc = ("ok", type(cmd).__name__, bytes(cmd.cdb), res)
        except Exception as e:   # noqa: BLE001
            oc = ("raised", type(e).__name__, str(e)[:80])
        outs.append((oc, len(dev.calls), len(s.trace)))
    out = []
    where = "%s on %s through a facade subclass overriding execute() (%s)" % (method, st, "delegating with super() and keywords" if kind == "kw" else "delegating to SCSI.execute positionally")
    if outs[1][0] != outs[0][0] or outs[1][1] != outs[0][1]:
        out.append(("subclass_facade/differs/%s" % method, "%s: %r, %d command(s) at the device; the plain facade: %r, %d" % (where, outs[1][0][:2], outs[1][1], outs[0][0][:2], outs[0][1])))
    if outs[1][2] != 1:
        out.append(("subclass_facade/override_calls/%s" % method, "%s: the override was entered %d times" % (where, outs[1][2])))
    if obs is not None:
        obs.append((outs[0][0][:2], outs[1][1], outs[1][2]))
    return out


def run_falsy_device(case, obs=None):
    """a caller-made device object whose truth value is False (an empty recording list, __bool__ = 'medium loaded', __len__ =
    outstanding commands): attaching probes it like any device, and the method that follows hands it exactly one command carrying the
    operation code of the set selected for the type it reported"""
    import pyscsi.pyscsi.scsi_enum_command as E
    from pyscsi.pyscsi.scsi import SCSI
    _, method, st, kind = case

    class NoMedium(RecDev):
        def __bool__(self):
            return False

    class Idle(RecDev):
        def __len__(self):
            return 0
    dev = {"bool_false": NoMedium, "len_zero": Idle}[kind](E.spc)
    dtype = F.SET_TO_TYPE[st]
    dev.response = R.std_inquiry({"peripheral_device_type": dtype, "version": 6}, {"t10_vendor_identification": b"VERIFVND",
                                                                                   "product_identification": b"PRODUCT-ID-16-BY", "product_revision_level": b"R001"})
    s = SCSI(dev, 512)
    out = []
    where = "%s on a caller-made %s device whose truth value is False (%s)" % (method, st, kind)
    if len(dev.calls) != 1 or dev.calls[0]["cdb"][0] != 0x12:
        out.append(("falsy_device/attach", "%s: attaching sent %r, expected exactly one standard INQUIRY" % (where, [c["cdb"].hex() for c in dev.calls])))
    del dev.calls[:]
    dev.response = response_for(method, dict(F.FACADE[method][2]), 0)
    key = F.FACADE[method][1]
    lookup = "%s_OPCODE_%s" % (st.upper(), key) if key in ("9E", "A3") else key
    try:
        F.call(s, method)
        oc = "returned"
    except Exception as e:   # noqa: BLE001
        oc = "raised %s: %s" % (type(e).__name__, e)
    if oc != "returned" or len(dev.calls) != 1 or dev.calls[0]["cdb"][0] != T.t10_value(st, lookup):
        out.append(("falsy_device/call/%s" % method, "%s: %s, the device saw %r; the %s set assigns %#04x" % (where, oc, [c["cdb"].hex() for c in dev.calls], st, T.t10_value(st, lookup))))
    if obs is not None:
        obs.append((oc[:10], len(dev.calls)))
    return out


def run_facade_life(case, obs=None):
    """the facade object outlives single uses: (after_with) used in a with-block, the device re-opened by hand, the same facade used
    again; (with_twice) entered twice; (assign) given another device by plain attribute assignment (s.device = other; the device
    carries the table the caller chose): the method reaches the current device exactly once with that device's opcode, nothing else
    is sent, the device's table is left alone"""
    import pyscsi.pyscsi.scsi_enum_command as E
    from pyscsi.pyscsi.scsi import SCSI
    _, how, method, st = case
    table = getattr(E, st)

    class Dev(RecDev):
        closed = 0

        def close(self):
            self.closed += 1

        def open(self):
            self.closed = 0
    dev = Dev(table)
    s = SCSI(dev, 512)
    dev.opcodes = table
    where = "%s on %s, %s" % (method, st, {"after_with": "after the facade's own with-block (device re-opened by hand)", "with_twice": "inside the facade's second with-block",
                                          "assign": "after `facade.device = other_device`"}[how])
    target = dev
    try:
        if how == "after_with":
            with s:
                s.testunitready()
            dev.open()
        elif how == "with_twice":
            with s:
                pass
            dev.open()
        else:
            target = Dev(table)
            s.device = target
        del dev.calls[:]
        del target.calls[:]
        target.response = response_for(method, dict(F.FACADE[method][2]), 0)
        if how == "with_twice":
            with s:
                F.call(s, method)
        else:
            F.call(s, method)
        oc = "returned"
    except Exception as e:   # noqa: BLE001
        oc = "raised %s: %s" % (type(e).__name__, e)
    key = F.FACADE[method][1]
    lookup = "%s_OPCODE_%s" % (st.upper(), key) if key in ("9E", "A3") else key
    out = []
    cdbs = [c["cdb"] for c in target.calls]
    if oc != "returned" or len(cdbs) != 1 or cdbs[0][0] != T.t10_value(st, lookup):
        out.append(("facade_life/%s/%s" % (how, method), "%s: %s; the device saw %r, expected one command with opcode %#04x" % (where, oc, [c.hex() for c in cdbs], T.t10_value(st, lookup))))
    if how == "assign" and (dev.calls or target.opcodes is not table):
        out.append(("facade_life/assign/side_effects", "%s: the device left behind saw %d command(s); the new device's table %s" % (where, len(dev.calls), "was replaced" if target.opcodes is not table else "is unchanged")))
    return out


def run_partial_table(case, obs=None):
    """a caller-assigned command set whose entry lists only SOME of the service actions the facade knows (an SPC-2 style PERSISTENT
    RESERVE IN with READ KEYS and READ RESERVATION only): the actions it lists are served with one command each"""
    from pyscsi.pyscsi.scsi import SCSI
    from pyscsi.pyscsi.scsi_opcode import OpCode
    from pyscsi.utils.enum import Enum
    _, listed, sa_name = case
    full = {"READ_KEYS": 0, "READ_RESERVATION": 1, "REPORT_CAPABILITIES": 2, "READ_FULL_STATUS": 3}
    table = {k: full[k] for k in listed}
    dev = RecDev(Enum({"INQUIRY": OpCode("INQUIRY", 0x12, {}), "PERSISTENT_RESERVE_IN": OpCode("PERSISTENT_RESERVE_IN", 0x5E, table)}))
    s = SCSI(dev, 512)
    dev.opcodes = Enum({"INQUIRY": OpCode("INQUIRY", 0x12, {}), "PERSISTENT_RESERVE_IN": OpCode("PERSISTENT_RESERVE_IN", 0x5E, table)})
    del dev.calls[:]
    dev.response = response_for("persistentreservein", {"service_action": full[sa_name]}, 0)
    where = "persistentreservein(%s) on a device whose own table lists %r" % (sa_name, listed)
    try:
        s.persistentreservein(full[sa_name])
        oc = "returned"
    except Exception as e:   # noqa: BLE001
        oc = "raised %s: %s" % (type(e).__name__, e)
    want_sent = sa_name in listed
    # (an action before the first unlisted one in the facade's order is served; asking for an unlisted one may fail either way)
    order = ["READ_KEYS", "READ_RESERVATION", "REPORT_CAPABILITIES", "READ_FULL_STATUS"]
    servable = want_sent and all(k in listed for k in order[:order.index(sa_name)])
    if servable and (oc != "returned" or len(dev.calls) != 1 or dev.calls[0]["cdb"][:2] != bytes([0x5E, full[sa_name]])):
        return [("partial_table/%s" % sa_name, "%s: %s, the device saw %r" % (where, oc, [c["cdb"].hex() for c in dev.calls]))]
    if not want_sent and dev.calls:
        return [("partial_table/sent_unlisted", "%s: not listed, yet the device saw %r" % (where, [c["cdb"].hex() for c in dev.calls]))]
    return []


def run_reattach(case, obs=None):
    """a facade is attached to the SAME device object a second time after the device behind it changed (SG_IO: the node was re-plugged
    with a unit of another type; any device object: the caller changed dev.opcodes): the second attach probes again - exactly one
    standard INQUIRY - and the method that follows carries the opcode of the set of the device now there (or is refused with nothing
    sent when that set does not offer it)"""
    from vf import harness
    from vf.sim import install, nodes
    from vf.sim.target import Target
    install.ensure()        # (the first use in a process re-imports the library against the stand-in bindings)
    from pyscsi.pyscsi.scsi import SCSI
    _, how, st_a, st_b, method = case
    out = []
    ta, tb = F.SET_TO_TYPE[st_a], F.SET_TO_TYPE[st_b]
    where = "%s after a second attach to the same device object (%s, %s -> %s)" % (method, how, st_a, st_b)
    node = None
    try:
        if how == "replug":
            from pyscsi.pyscsi.scsi_device import SCSIDevice
            node = nodes.Node(lambda g: Target(device_type=ta if g == 1 else tb))
            dev = SCSIDevice(node.path, True, True)
            s = SCSI(dev, 512)
            node.plug()
            tgt = node.targets[node.generation]
        else:
            rig = harness.Rig(how, tb)
            dev, tgt = rig.dev, rig.target
            s = SCSI(dev, 512)
            dev.opcodes = harness.opcode_set(st_a)       # (the caller's own assignment; attaching again restores the device's set)
        n0 = len(tgt.log)
        s(dev)
        new = [r["cdb"] for r in tgt.log[n0:]]
        if len(new) != 1 or new[0][0] != 0x12 or new[0][1] & 1:
            out.append(("reattach/probe", "%s: the second attach sent %r to the device now there, expected exactly one standard INQUIRY" % (where, [c.hex() for c in new])))
        want_table = harness.opcode_set(st_b)
        if dev.opcodes is not want_table and set(dev.opcodes.keys) != set(want_table.keys):
            out.append(("reattach/set", "%s: the device object carries a set with keys like %r, expected %s" % (where, sorted(dev.opcodes.keys)[:3], st_b)))
        resp = response_for(method, dict(F.FACADE[method][2]), 0)
        tgt.responder = lambda cdb: resp
        n0 = len(tgt.log)
        offered = st_b in F.sets_offering(method)
        key = F.FACADE[method][1]
        lookup = "%s_OPCODE_%s" % (st_b.upper(), key) if key in ("9E", "A3") else key
        try:
            F.call(s, method)
            oc = "returned"
        except AttributeError:
            oc = "AttributeError"
        except Exception as e:   # noqa: BLE001
            oc = "raised %s: %s" % (type(e).__name__, e)
        new = [r["cdb"] for r in tgt.log[n0:]]
        if offered:
            if oc != "returned" or len(new) != 1 or new[0][0] != T.t10_value(st_b, lookup):
                out.append(("reattach/opcode/%s" % method, "%s: %s, the device saw %r; its %s set assigns %#04x" % (where, oc, [c.hex() for c in new], st_b, T.t10_value(st_b, lookup))))
        elif new:
            out.append(("reattach/sent_unoffered/%s" % method, "%s: the %s set does not offer the command, yet the device saw %r" % (where, st_b, [c.hex() for c in new])))
        if obs is not None:
            obs.append((oc[:12], len(new)))
    finally:
        if node is not None:
            try:
                dev.close()
            except Exception:   # noqa: BLE001
                pass
            node.destroy()
        elif how != "replug":
            rig.close()
    return out


REPEAT_HEAVY = ("testunitready", "read10", "write10", "inquiry", "readcapacity16", "modesense6")


def repeat_count(method, tier):
    if tier == "quick":
        return 260
    return 66000 if method in REPEAT_HEAVY else 1100


def run_repeat(case, obs=None):
    """the same facade call N times on one real device (N crosses 256, in the thorough tier 1024 and for six methods 65536): every
    call reaches the target exactly once with the CDB of the first call and gives the result of the first call"""
    from vf import harness
    from vf.props.c09 import freeze
    _, tr, st, method, n = case
    out = []
    rig = harness.Rig(tr, F.SET_TO_TYPE[st])
    try:
        s = rig.facade(512)
        resp = response_for(method, dict(F.FACADE[method][2]), 0)
        rig.target.responder = lambda cdb: resp
        first = None
        for i in range(n):
            del rig.target.log[:]
            del registry.iscsi_tasks[:]
            where = "%s on a %s %s device, call #%d of %d identical ones" % (method, tr, st, i + 1, n)
            try:
                cmd = F.call(s, method)
                try:
                    res = freeze(cmd.result)
                except Exception:   # noqa: BLE001
                    res = None
                oc = ("ok", bytes(cmd.cdb), res, bytes(cmd.datain[:64]))
            except Exception as e:   # noqa: BLE001
                oc = ("raised", type(e).__name__, str(e)[:80])
            seen = (oc, [r["cdb"] for r in rig.target.log])
            if first is None:
                first = seen
                if len(seen[1]) != 1:
                    out.append(("repeat/submissions/%s" % method, "%s: %d commands reached the target (%s)" % (where, len(seen[1]), oc[:2])))
                    break
            elif seen != first:
                what = "%d commands reached the target" % len(seen[1]) if len(seen[1]) != 1 else "outcome %r, the first call gave %r" % (seen[0][:2], first[0][:2]) if seen[0][:2] != first[0][:2] else "another result / data-in content than the first call"
                out.append(("repeat/differs/%s" % method, "%s: %s" % (where, what)))
                break
        if obs is not None:
            obs.append((first[0][0], n))
    finally:
        rig.close()
    return out


def run_two(case, obs=None):
    """two facades over two devices alive at once (different command sets, different block sizes), used alternately:
    A.m, B.m', A.m - every call reaches its own device once, with its own device's operation code and its own facade's block size;
    A's two calls send the same CDB"""
    import pyscsi.pyscsi.scsi_enum_command as E
    from pyscsi.pyscsi.scsi import SCSI
    _, m, st_a, m2, st_b = case
    out = []
    da, db = RecDev(getattr(E, st_a)), RecDev(getattr(E, st_b))
    sa, sb = SCSI(da, 512), SCSI(db, 4096)
    da.opcodes, db.opcodes = getattr(E, st_a), getattr(E, st_b)
    del da.calls[:], db.calls[:]
    where = "%s on %s / %s on %s / %s again" % (m, st_a, m2, st_b, m)
    seq = []
    for who, meth, bs in ((sa, m, 512), (sb, m2, 4096), (sa, m, 512)):
        na, nb = len(da.calls), len(db.calls)
        try:
            F.call(who, meth, blocksize=bs)
        except Exception as e:   # noqa: BLE001
            out.append(("two/raises/%s" % meth, "%s: %s raised %s: %s" % (where, meth, type(e).__name__, e)))
            return out
        ga, gb = len(da.calls) - na, len(db.calls) - nb
        want = (1, 0) if who is sa else (0, 1)
        if (ga, gb) != want:
            out.append(("two/wrong_device/%s" % meth, "%s: the call on facade %s reached device A %d times and device B %d times" % (where, "A" if who is sa else "B", ga, gb)))
            return out
        rec = (da if who is sa else db).calls[-1]
        seq.append(rec)
        st = st_a if who is sa else st_b
        key = F.FACADE[meth][1]
        lookup = "%s_OPCODE_%s" % (st.upper(), key) if key in ("9E", "A3") else key
        if rec["cdb"][0] != T.t10_value(st, lookup):
            out.append(("two/opcode/%s" % meth, "%s: %s sent opcode %#04x, its device's %s set assigns %#04x" % (where, meth, rec["cdb"][0], st, T.t10_value(st, lookup))))
        if who.blocksize != bs:
            out.append(("two/blocksize", "%s: facade block size is %r, configured %d" % (where, who.blocksize, bs)))
        name = F.FACADE[meth][0]
        if name in F_BLOCK and meth.startswith(("read1", "write1")):
            n = S.decode(name, rec["cdb"])["tl"] * bs
            buf = rec["datain"] if meth.startswith("read") else rec["dataout"]
            if len(buf) != n:
                out.append(("two/buffer/%s" % meth, "%s: %s moved %d bytes, its facade's block size gives %d" % (where, meth, len(buf), n)))
    if seq[0]["cdb"] != seq[2]["cdb"]:
        out.append(("two/cdb_changed/%s" % m, "%s: the same call on A sends %s after B was used, %s before" % (where, seq[2]["cdb"].hex(), seq[0]["cdb"].hex())))
    if obs is not None:
        obs.append(tuple(r["cdb"] for r in seq))
    return out


def run_case(case, obs=None):
    if case[0] == "idle":
        return run_idle(case, obs)
    if case[0] == "repeat":
        return run_repeat(case, obs)
    if case[0] == "reattach":
        return run_reattach(case, obs)
    if case[0] == "subclass_facade":
        return run_subclass_facade(case, obs)
    if case[0] == "falsy_device":
        return run_falsy_device(case, obs)
    if case[0] == "partial_table":
        return run_partial_table(case, obs)
    if case[0] == "facade_life":
        return run_facade_life(case, obs)
    if case[0] == "tools":
        from vf.props import c13_tools
        return c13_tools.run_tool(*c13_tools.SCRIPTS[case[1]], case[2])[0]
    if case[0] == "two":
        return run_two(case, obs)
    if case[0] == "fault":
        return run_fault(case, obs)
    if case[0] == "transport":
        return run_transport(case, obs)
    if case[0] == "recovery":
        return run_recovery(case, obs)
    method, st, kwj, variant = case
    name, key, base_args = F.FACADE[method]
    from pyscsi.pyscsi.scsi import SCSI
    import pyscsi.pyscsi.scsi_enum_command as E
    opset = getattr(E, st)
    out = []
    where = "%s(%r) on %s" % (method, kwj, st)
    dev = RecDev(opset)
    fbs = kwj.get("_facade_blocksize", 512)
    s = SCSI(dev, fbs)            # the attach INQUIRY sees an all-zero answer; the set under test is then put in place
    dev.opcodes = opset
    del dev.calls[:]
    kw = {}
    for k, v in kwj.items():
        if k == "_facade_blocksize":
            continue
        if v == "BUF":
            v = bytearray(b"\x99" * 512)
        elif v == "MV":
            v = memoryview(bytearray(b"\x98" * 2048))[512:1024]        # a writable window into a larger caller-owned pool
        elif v == "BYTES":
            v = bytes(b"\x97" * 512)
        elif v == "INLINE":
            v = bytearray(b"inline")
        kw[k] = v
    allkw = dict(base_args)
    allkw.update(kw)
    resp = response_for(method, allkw, variant)
    dev.response = resp
    try:
        cmd = F.call(s, method, **kw)
        err = None
    except Exception as e:   # noqa: BLE001
        cmd, err = None, e
    calls = dev.calls
    if obs is not None:
        obs.append((len(calls), calls[0]["cdb"] if calls else None, type(err).__name__))
    if len(calls) != 1:
        out.append(("%s/call_count" % method, "%s: device.execute called %d times (%s)" % (where, len(calls), err)))
        return out
    c = calls[0]
    # ---- operation code of the attached device's command set
    lookup = "%s_OPCODE_%s" % (st.upper(), key) if key in ("9E", "A3") else key
    want_op = T.t10_value(st, lookup)
    if c["cdb"][0] != want_op:
        out.append(("%s/opcode" % method, "%s: CDB opcode %#04x, the %s set assigns %#04x" % (where, c["cdb"][0], st, want_op)))
    # ---- every supplied argument (and every default) reaches the CDB
    allkw.pop("_facade_blocksize", None)
    point = {a: v for a, v in allkw.items() if a in S.CLASSES[name]["args"] or (a == "lba" and name in S.ATA_LBA_BYTES)}
    if method == "persistentreservein":
        cname = ["PersistentReserveInReadKeys", "PersistentReserveInReadReservation", "PersistentReserveInReportCapabilities",
                 "PersistentReserveInReadFullStatus"][allkw["service_action"]]
        point = {a: v for a, v in allkw.items() if a in S.CLASSES[cname]["args"]}
    else:
        cname = name
    exp = CS.expected_fields(cname, point)
    got = S.decode(cname, c["cdb"])
    for f, v in exp.items():
        if f in S.CLASSES[cname]["computed"]:
            continue
        if got.get(f) != v:
            out.append(("%s/argument/%s" % (method, f), "%s: the CDB %s carries %s=%r, the caller supplied/defaulted %r" % (where, c["cdb"].hex(), f, got.get(f), v)))
    if len(c["cdb"]) != S.CLASSES[cname]["length"]:
        out.append(("%s/cdb_length" % method, "%s: CDB of %d bytes" % (where, len(c["cdb"]))))
    # ---- decode only after execute
    if c["result_at_call"] not in ({}, None):
        out.append(("%s/decoded_before_execute" % method, "%s: cmd.result was already %r when the device was called" % (where, c["result_at_call"])))
    want_raw = method.startswith("atapassthrough")
    if bool(c["raw"]) != want_raw:
        out.append(("%s/raw_flag" % method, "%s: en_raw_sense=%r" % (where, c["raw"])))
    # ---- what the caller gets back
    cls = CS.get_class(cname)
    dec = getattr(cls, "unmarshall_datain", None)
    if err is None:
        if cmd.datain is not c["datain"] or cmd.dataout is not c["dataout"]:
            out.append(("%s/buffer_identity" % method, "%s: the buffers on the returned command are not the ones the device saw" % where))
        if "data" in kw and len(kw["data"]) and not (name == "WriteSame16" and allkw.get("ndob")):
            tgt = cmd.datain if (name in S.ATA_LBA_BYTES and allkw.get("t_dir")) else cmd.dataout
            if tgt is not kw["data"]:
                out.append(("%s/caller_data" % method, "%s: the caller's data buffer is not what the device received" % where))
    if dec is not None:
        dk = decoder_kwargs(method, allkw)
        try:
            want = ("ok", dec(bytearray(c["datain_after"]), **dk))
        except Exception as e:   # noqa: BLE001
            want = ("exc", type(e).__name__)
        if want[0] == "ok":
            if err is not None:
                out.append(("%s/raises" % method, "%s: raised %s: %s although the response decodes" % (where, type(err).__name__, err)))
            elif not same(cmd.result, want[1]):
                out.append(("%s/result" % method, "%s: cmd.result %s differs from decoding what the device wrote %s" % (where, _s(cmd.result), _s(want[1]))))
            elif resp and any(resp) and obs is not None:
                try:
                    zero = dec(bytearray(len(c["datain_after"])), **dk)
                except Exception:
                    zero = object()
                obs.append("nonvacuous" if not same(want[1], zero) else "same_as_zero_buffer")
        else:
            if err is None or type(err).__name__ != want[1]:
                out.append(("%s/undecodable_response" % method, "%s: decoding the device data raises %s, the facade %s"
                            % (where, want[1], "returned normally" if err is None else "raised " + type(err).__name__)))
    elif err is not None:
        out.append(("%s/raises" % method, "%s: raised %s: %s" % (where, type(err).__name__, err)))
    elif cmd.result not in ({}, None):
        out.append(("%s/unexpected_result" % method, "%s: result %r for a command without decoder" % (where, cmd.result)))
    if err is None and not out:
        out += second_use(s, dev, method, kw, cmd, c, where, decoder_kwargs(method, allkw) if dec is not None else None)
    return out


def second_use(s, dev, method, kw, cmd, first, where, dk):
    """what the caller may do next with what it got back: decode again, submit the same command again, call the method again with
    the same arguments on the same facade - each behaves like the first time"""
    out = []
    r1 = copy.deepcopy(cmd.result)
    try:
        if dk is not None:
            cmd.unmarshall(**dk)
    except Exception as e:   # noqa: BLE001
        out.append(("%s/second_unmarshall" % method, "%s: decoding the returned command a second time raised %s: %s" % (where, type(e).__name__, e)))
    else:
        if not same(cmd.result, r1):
            out.append(("%s/second_unmarshall" % method, "%s: decoding the returned command a second time gives %s, the first time %s" % (where, _s(cmd.result), _s(r1))))
    n0 = len(dev.calls)
    try:
        s.execute(cmd)
    except Exception as e:   # noqa: BLE001
        out.append(("%s/resubmit" % method, "%s: submitting the returned command again raised %s: %s" % (where, type(e).__name__, e)))
    new = dev.calls[n0:]
    if len(new) != 1 or new[0]["cdb"] != first["cdb"] or new[0]["datain"] is not first["datain"] or new[0]["dataout"] is not first["dataout"]:
        out.append(("%s/resubmit" % method, "%s: submitting the returned command again reached the device %d times with CDB %s (first: %s)"
                    % (where, len(new), new[0]["cdb"].hex() if new else None, first["cdb"].hex())))
    n0 = len(dev.calls)
    try:
        cmd2 = F.call(s, method, **kw)
    except Exception as e:   # noqa: BLE001
        out.append(("%s/second_call" % method, "%s: the same call a second time raised %s: %s" % (where, type(e).__name__, e)))
        return out
    new = dev.calls[n0:]
    if len(new) != 1 or new[0]["cdb"] != first["cdb"]:
        out.append(("%s/second_call" % method, "%s: the same call a second time reached the device %d times with CDB %s (first: %s)"
                    % (where, len(new), new[0]["cdb"].hex() if new else None, first["cdb"].hex())))
    elif cmd2 is cmd or (cmd2.datain is cmd.datain and len(cmd.datain) and "data" not in kw):
        out.append(("%s/second_call" % method, "%s: the second call returned the first call's command / data-in buffer" % where))
    elif not same(cmd2.result, r1):
        out.append(("%s/second_call" % method, "%s: the same call a second time decodes to %s, the first time %s" % (where, _s(cmd2.result), _s(r1))))
    return out


def same(a, b):
    if isinstance(a, dict) and isinstance(b, dict):
        return a.keys() == b.keys() and all(same(a[k], b[k]) for k in a)
    if isinstance(a, (list, tuple)) and isinstance(b, (list, tuple)):
        return len(a) == len(b) and all(same(x, y) for x, y in zip(a, b))
    if isinstance(a, (bytes, bytearray)) and isinstance(b, (bytes, bytearray)):
        return bytes(a) == bytes(b)
    return a == b


def _s(x):
    r = repr(x)
    return r if len(r) < 120 else r[:117] + "..."


def replay(case):
    return run_case(case)


def partitions(tier):
    return ([[m] for m in F.FACADE] + [["transport", tr, m] for tr in ("sgio", "iscsi") for m in ("read10", "read12", "read16", "write10", "write12", "write16")]
            + [["recovery"]] + [["two", m] for m in F.FACADE] + [["tools"]] + [["idle", tr] for tr in ("sgio", "iscsi")]
            + [["repeat", tr, m] for tr in ("sgio", "iscsi") for m in F.FACADE]
            + [["reattach", how] for how in ("replug", "sgio", "iscsi")] + [["subclass_facade"], ["falsy_device"]])


def run_partition(part, tier, seed):
    acc = Acc(seed)
    if part[0] == "tools":
        from vf.props import c13_tools
        for i, sc in enumerate(c13_tools.SCRIPTS):
            for tr in ("sgio", "iscsi"):
                case = ["tools", i, tr]
                acc.case(case, nontrivial=True, key=repr(case))
                try:
                    v, text = c13_tools.run_tool(*sc, tr)
                except Exception:
                    import traceback
                    v, text = [("harness_error", traceback.format_exc()[-600:])], ""
                for k, w in v:
                    acc.violation(k, w, case)
                acc.outcome((repr(case), hash(text), tuple(k for k, _ in v)))
        return acc
    if part[0] == "two":
        m = part[1]
        for st_a in F.sets_offering(m):
            for m2 in F.FACADE:
                for st_b in F.sets_offering(m2):
                    if st_b == st_a and m2 != m:
                        continue
                    case = ["two", m, st_a, m2, st_b]
                    acc.case(case, nontrivial=True, key=repr(case))
                    obs = []
                    try:
                        v = run_case(case, obs)
                    except Exception:
                        import traceback
                        v = [("harness_error", traceback.format_exc()[-600:])]
                    for k, w in v:
                        acc.violation(k, w, case)
                    acc.outcome((repr(case), tuple(obs), tuple(k for k, _ in v)))
        return acc
    if part[0] == "falsy_device":
        for how in ("after_with", "with_twice", "assign"):
            for m in F.FACADE:
                for st in F.sets_offering(m):
                    case = ["facade_life", how, m, st]
                    acc.case(case, nontrivial=True, key=repr(case))
                    try:
                        v = run_case(case, [])
                    except Exception:
                        import traceback
                        v = [("harness_error", traceback.format_exc()[-600:])]
                    for k, w in v:
                        acc.violation(k, w, case)
                    acc.outcome((repr(case), tuple(k for k, _ in v)))
        for listed in (["READ_KEYS"], ["READ_KEYS", "READ_RESERVATION"], ["READ_KEYS", "READ_RESERVATION", "REPORT_CAPABILITIES"]):
            for sa_name in ("READ_KEYS", "READ_RESERVATION", "REPORT_CAPABILITIES", "READ_FULL_STATUS"):
                case = ["partial_table", listed, sa_name]
                acc.case(case, nontrivial=True, key=repr(case))
                try:
                    v = run_case(case, [])
                except Exception:
                    import traceback
                    v = [("harness_error", traceback.format_exc()[-600:])]
                for k, w in v:
                    acc.violation(k, w, case)
                acc.outcome((repr(case), tuple(k for k, _ in v)))
        for m in F.FACADE:
            for st in F.sets_offering(m):
                if st == "spc" and m not in ("inquiry", "testunitready", "reportluns"):
                    pass
                for kind in ("bool_false", "len_zero"):
                    case = ["falsy_device", m, st, kind]
                    acc.case(case, nontrivial=True, key=repr(case))
                    obs = []
                    try:
                        v = run_case(case, obs)
                    except Exception:
                        import traceback
                        v = [("harness_error", traceback.format_exc()[-600:])]
                    for k, w in v:
                        acc.violation(k, w, case)
                    acc.outcome((repr(case), tuple(obs), tuple(k for k, _ in v)))
                    acc.transitions += 2
                    acc.traces += 1
        return acc
    if part[0] == "subclass_facade":
        for m in F.FACADE:
            for st in F.sets_offering(m):
                for kind in ("kw", "pos"):
                    case = ["subclass_facade", m, st, kind]
                    acc.case(case, nontrivial=True, key=repr(case))
                    obs = []
                    try:
                        v = run_case(case, obs)
                    except Exception:
                        import traceback
                        v = [("harness_error", traceback.format_exc()[-600:])]
                    for k, w in v:
                        acc.violation(k, w, case)
                    acc.outcome((repr(case), tuple(obs), tuple(k for k, _ in v)))
                    acc.transitions += 2
                    acc.traces += 1
        return acc
    if part[0] == "reattach":
        sets = ("sbc", "ssc", "smc", "mmc", "spc")
        for st_a in sets:
            for st_b in sets:
                if st_a == st_b:
                    continue
                for m in F.FACADE:
                    if st_a not in F.sets_offering(m) and st_b not in F.sets_offering(m):
                        continue
                    case = ["reattach", part[1], st_a, st_b, m]
                    acc.case(case, nontrivial=True, key=repr(case))
                    obs = []
                    try:
                        v = run_case(case, obs)
                    except Exception:
                        import traceback
                        v = [("harness_error", traceback.format_exc()[-600:])]
                    for k, w in v:
                        acc.violation(k, w, case)
                    acc.outcome((repr(case), tuple(obs), tuple(k for k, _ in v)))
                    acc.transitions += 3
                    acc.traces += 1
        return acc
    if part[0] == "repeat":
        m = part[2]
        for st in F.sets_offering(m):
            case = ["repeat", part[1], st, m, repeat_count(m, tier)]
            acc.case(case, nontrivial=True, key=repr(case))
            obs = []
            try:
                v = run_case(case, obs)
            except Exception:
                import traceback
                v = [("harness_error", traceback.format_exc()[-600:])]
            for k, w in v:
                acc.violation(k, w, case)
            acc.outcome((repr(case[:4]), tuple(obs), tuple(k for k, _ in v)))
            acc.transitions += case[4]
            acc.traces += 1
        return acc
    if part[0] == "idle":
        for m in F.FACADE:
            for st in F.sets_offering(m):
                for gap in IDLE_GAPS:
                    case = ["idle", part[1], st, m, gap]
                    acc.case(case, nontrivial=gap > 0, key=repr(case))
                    obs = []
                    try:
                        v = run_case(case, obs)
                    except Exception:
                        import traceback
                        v = [("harness_error", traceback.format_exc()[-600:])]
                    for k, w in v:
                        acc.violation(k, w, case)
                    acc.outcome((repr(case[:4]), tuple(obs), tuple(k for k, _ in v)))
                    acc.transitions += 2
                    acc.traces += 1
        return acc
    if part[0] == "recovery":
        for m in RECOVERY_METHODS:
            for en in (13, 24, 16, 0, -1):          # EACCES, EMFILE, EBUSY, no fault (plain re-plug), detection off (node unlinked, then replaced)
                case = ["recovery", m, en]
                acc.case(case, nontrivial=True, key=repr(case))
                obs = []
                try:
                    v = run_case(case, obs)
                except Exception:
                    import traceback
                    v = [("harness_error", traceback.format_exc()[-600:])]
                for k, w in v:
                    acc.violation(k, w, case)
                acc.outcome((repr(case), tuple(obs), tuple(k for k, _ in v)))
        return acc
    if part[0] == "transport":
        for nblk in XFER_BLOCKS:
            case = ["transport", part[1], part[2], nblk]
            acc.case(case, nontrivial=nblk > 1, key=repr(case))
            obs = []
            try:
                v = run_case(case, obs)
            except Exception:
                import traceback
                v = [("harness_error", traceback.format_exc()[-600:])]
            for k, w in v:
                acc.violation(k, w, case)
            acc.outcome((repr(case), tuple(obs), tuple(k for k, _ in v)))
        return acc
    method = part[0]
    opts = optional_params(method)
    extra_req = []
    if method == "persistentreservein":
        extra_req = [{"service_action": sa} for sa in range(4)]
    elif method == "readdiscinformation":
        extra_req = [{"data_type": d} for d in range(3)]
    elif method in ("modesense6", "modesense10"):
        extra_req = [{"page_code": p} for p in (0x0A, 0x1D, 0x02)]
    elif method in ("write10", "write12", "write16", "writesame10", "writesame16"):
        extra_req = [{}, {"data": "BYTES"}, {"data": "MV"}]
        if method == "writesame16":
            # no data-out buffer is transferred with NDOB, so a facade without block size can issue it
            extra_req.append({"ndob": 1, "_facade_blocksize": 0})
    else:
        extra_req = [{}]
    for st in F.sets_offering(method):
        for req in extra_req:
            for r in range(len(opts) + 1):
                for subset in itertools.combinations(opts, r):
                    for vi in ((0, 1) if subset else (0,)):
                        kw = dict(req)
                        for o in subset:
                            kw[o] = OPTVALS[o][vi] if o in OPTVALS else 1
                        for variant in (0, 1, 2, 3, 4, 5, 6, 7, 8, 9):
                            case = [method, st, kw, variant]
                            obs = []
                            try:
                                v = run_case(case, obs)
                            except Exception:
                                import traceback
                                v = [("harness_error/%s" % method, traceback.format_exc()[-700:])]
                            acc.case(case, nontrivial=bool(subset) or st != "spc", key=repr(case))
                            for kk, w in v:
                                acc.violation(kk, w, case)
                            acc.outcome((method, tuple(obs), tuple(x for x, _ in v)))
                            if "nonvacuous" in obs:
                                acc.add("results_that_differ_from_the_zero_buffer_decode")
    for st in F.sets_offering(method):
        for fault in FAULTS:
            case = ["fault", method, st, fault]
            obs = []
            try:
                v = run_case(case, obs)
            except Exception:
                import traceback
                v = [("harness_error/%s" % method, traceback.format_exc()[-700:])]
            acc.case(case, nontrivial=True, key=repr(case))
            for kk, w in v:
                acc.violation(kk, w, case)
            acc.outcome((method, tuple(obs), tuple(x for x, _ in v)))
    acc.extra["optional_arguments"] = ["%s:%s" % (method, ",".join(opts))]
    return acc
