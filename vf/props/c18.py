"""C18 - enumerations map names to values and back consistently under add/remove."""
import collections

from vf.runner import Acc

ID = "C18"
LEVEL = "model_checking"
TECHNIQUE = "breadth-first explicit-state search over add/remove histories on two live Enum objects (histories replayed on fresh objects, canonical state hashed for de-duplication), every state compared with two ordinary dicts as reference model"
RULE = ("initial mappings in dict form, keyword form and as the service-action table of an OpCode (incl. empty, duplicate values, falsy values, nested dict and OpCode values); the library's shipped tables must be unchanged afterwards; construction in both forms with 30 member names that could collide with a constructor parameter name (mapping, name, value, args, kwargs, ...); operations look(attribute probing / copy, deepcopy, pickle of the table and an instance / inspect - what outside parties do without the API), add(name,value) "
        "and remove(name) on either of two enumerations over names {A, B, 'C-D e'} x values {big int, 0, {'n':1}, OpCode, None | second int, {}, 'x', ''} (quick: the first 5); BFS to "
        "depth 4 (quick) / 5 (thorough) with de-duplication on the ordered item lists of both enumerations; in every state: keys, every getattr, "
        "reverse lookup of every alphabet value, refusal of duplicate add / missing remove, on both enumerations. states = distinct canonical "
        "states, transitions = operations applied to real objects.")
ASSUMPTIONS = [
    "reference model: collections.OrderedDict per enumeration; reverse lookup = first name in dict order whose value compares equal, '' if none",
    "names colliding with the metaclass API (keys, add, remove, mro), dunder names and callable values are outside the alphabet (Python gives them another meaning on a class)",
    "the canonical state (ordered item lists of both enumerations, as observed through the public API) determines all futures of a correct implementation; hidden state that differs would show up as a lookup disagreement within the depth bound",
]
NAMES = ["A", "B", "C-D e"]


def bounds(tier):
    return {"depth": 4 if tier == "quick" else 5, "values": 6 if tier == "quick" else 8}


def values(n):
    from pyscsi.pyscsi.scsi_opcode import OpCode
    global _OP
    try:
        _OP
    except NameError:
        _OP = OpCode("A", 1, {})
    # includes falsy values (0, None, empty dict): "is the name present" must not be confused with "is its value true"
    # ... and a text value spelled like one of the NAMES ("B"): names and values are different namespaces
    v = [("i1", int("1000000000001")), ("zero", 0), ("dict", {"n": 1}), ("op", _OP), ("sB", "B"), ("none", None), ("i2", int("1000000000002")),
         ("edict", {}), ("sx", "x"), ("estr", "")]
    return v[:n]


def equal_copy(v):
    """an equal but distinct object (reverse lookup is by equality, not identity); OpCode has identity equality"""
    if isinstance(v, int):
        return int(str(v))
    if isinstance(v, dict):
        return dict(v)
    if isinstance(v, str):
        return "".join(list(v + "!"))[:-1]
    return v


def tag_of(v, vals):
    for t, x in vals:
        if type(x) is type(v) and x == v:
            return t
    return "?" + repr(v)


INITS = [
    [("dict", [("A", "i1"), ("B", "i1")]), ("kw", [("A", "zero")])],
    [("dict", [("C-D e", "dict"), ("A", "op")]), ("dict", [("A", "none")])],
    [("kw", [("A", "i1"), ("B", "zero")]), ("kw", [("B", "i1")])],
    [("dict", []), ("kw", [("A", "i1")])],
    [("dict", [("B", "op"), ("A", "op"), ("C-D e", "zero")]), ("dict", [])],
    [("kw", [("A", "none"), ("B", "zero")]), ("dict", [("C-D e", "zero")])],
    # enumerations the library itself creates: the service-action table of an OpCode (empty and non-empty)
    [("op", []), ("op", [])],
    [("op", []), ("op", [("A", "i1")])],
    [("op", [("B", "zero")]), ("dict", [])],
]


NCHUNK = 3


PARAM_LIKE_NAMES = ["mapping", "name", "value", "key", "args", "kwargs", "self", "dict", "bases", "data", "items", "values", "attributes",
                    "enum", "other", "m", "d", "kw", "result", "tmp", "type", "names", "members", "default", "serviceaction", "code", "opcode"]


UNICODE_NAMES = ["\u00b5_SEC", "\ufb01eld", "e\u0301", "\uff21", "x\u2082", "\u00e9", "\u4e2d", "field", "\u03bc_SEC", "A\u030a", "\u00c5", "\u212b"]


def check_unicode(n1, n2):
    """add / look up / remove with names that are equal or distinct only up to Unicode normalisation, against a dict"""
    from pyscsi.utils.enum import Enum
    out = []
    where = "names %a then %a" % (n1, n2)
    e = Enum({})
    model = collections.OrderedDict()
    for step, (nm, val) in enumerate(((n1, 11), (n2, 22))):
        try:
            e.add(nm, val)
            added = True
        except KeyError:
            added = False
        except Exception as ex:   # noqa: BLE001
            out.append(("unicode/add_raises", "%s: add(%a) raised %s: %s" % (where, nm, type(ex).__name__, ex)))
            return out
        if added != (nm not in model):
            out.append(("unicode/add_refusal", "%s: add(%a) %s, a dict %s" % (where, nm, "accepted" if added else "refused", "has it already" if nm in model else "does not have it")))
        if added and nm not in model:
            model[nm] = val
        if sorted(e.keys) != sorted(model):
            out.append(("unicode/keys", "%s: names %a, the dict has %a" % (where, sorted(e.keys), sorted(model))))
        for k, v in model.items():
            try:
                if getattr(e, k) != v:
                    out.append(("unicode/value", "%s: .%a is %r, expected %r" % (where, k, getattr(e, k), v)))
            except AttributeError:
                out.append(("unicode/value", "%s: name %a cannot be read back" % (where, k)))
            if e[v] != k:
                out.append(("unicode/reverse", "%s: reverse lookup of %r gives %a, expected %a" % (where, v, e[v], k)))
    for nm in list(model):
        try:
            e.remove(nm)
            del model[nm]
        except Exception as ex:   # noqa: BLE001
            out.append(("unicode/remove", "%s: remove(%a) raised %s although the name was added" % (where, nm, type(ex).__name__)))
        if sorted(e.keys) != sorted(model):
            out.append(("unicode/keys_after_remove", "%s: names %a, the dict has %a" % (where, sorted(e.keys), sorted(model))))
    return out


def check_opcode_dict(edit, read_first):
    """the service actions of an OpCode are the mapping supplied at construction: editing the caller's dictionary afterwards (before or
    after the enumeration was first read) changes nothing"""
    from pyscsi.pyscsi.scsi_opcode import OpCode
    d = {"READ_KEYS": 0, "READ_RESERVATION": 1, "REPORT_CAPABILITIES": 2}
    want = dict(d)
    op = OpCode("PERSISTENT_RESERVE_IN", 0x5E, dict(d) if edit == "none" else d)
    if read_first:
        op.serviceaction.keys
    if edit == "add":
        d["READ_FULL_STATUS"] = 3
    elif edit == "delete":
        del d["READ_KEYS"]
    elif edit == "change":
        d["READ_KEYS"] = 9
    elif edit == "clear":
        d.clear()
    out = []
    e = op.serviceaction
    where = "OpCode built from a dictionary that the caller %s afterwards (%s the first read of .serviceaction)" % (
        {"add": "extended", "delete": "shortened", "change": "changed", "clear": "emptied", "none": "left alone"}[edit], "after" if read_first else "before")
    if sorted(e.keys) != sorted(want):
        out.append(("opcode_dict/names", "%s: names %r, supplied %r" % (where, sorted(e.keys), sorted(want))))
    for k, v in want.items():
        if getattr(e, k, "<missing>") != v:
            out.append(("opcode_dict/value", "%s: .%s is %r, supplied %r" % (where, k, getattr(e, k, "<missing>"), v)))
        elif e[v] != k:
            out.append(("opcode_dict/reverse", "%s: reverse lookup of %r gives %r" % (where, v, e[v])))
    try:
        e.add("READ_KEYS", 5)
        out.append(("opcode_dict/readd", "%s: adding the supplied name READ_KEYS again was accepted" % where))
    except KeyError:
        pass
    return out


class _NoRepr(object):
    def __repr__(self):
        raise RuntimeError("this object cannot be printed")

    __str__ = __repr__


def check_unprintable(form, kind):
    """values that cannot be turned into text (an object whose __repr__ raises; an int beyond the interpreter's digit limit; an OpCode
    whose code is no int): the enumeration stores and returns them like any value, and a refused add / remove is still a KeyError"""
    from pyscsi.pyscsi.scsi_opcode import OpCode
    from pyscsi.utils.enum import Enum
    v = {"norepr": _NoRepr(), "hugeint": 1 << 20000, "nested": {"n": 1 << 20000}, "opcode_float": OpCode("X", 18.0, {})}[kind]
    e = Enum({"A": v, "B": 2}) if form == "dict" else Enum(A=v, B=2)
    out = []
    where = "Enum with A = %s (%s form)" % (kind, form)
    try:
        e.add("A", 1)
        out.append(("unprintable/readd_accepted", "%s: add of the existing name A was accepted" % where))
    except KeyError:
        pass
    except Exception as ex:   # noqa: BLE001
        out.append(("unprintable/readd_wrong_error", "%s: add of the existing name A raised %s instead of KeyError" % (where, type(ex).__name__)))
    try:
        e.remove("C")
        out.append(("unprintable/remove_missing_accepted", "%s: remove of the missing name C was accepted" % where))
    except KeyError:
        pass
    except Exception as ex:   # noqa: BLE001
        out.append(("unprintable/remove_wrong_error", "%s: remove of the missing name C raised %s instead of KeyError" % (where, type(ex).__name__)))
    try:
        if e.A is not v or sorted(e.keys) != ["A", "B"] or e[2] != "B" or e[v] != "A":
            out.append(("unprintable/state", "%s: names %r, A is the stored object: %s, reverse lookups %r / %r" % (where, sorted(e.keys), e.A is v, e[2], e[v])))
        e.remove("A")
        e.add("A", v)
        if sorted(e.keys) != ["A", "B"] or e.A is not v:
            out.append(("unprintable/state", "%s: after remove + add the names are %r" % (where, sorted(e.keys))))
    except Exception as ex:   # noqa: BLE001
        out.append(("unprintable/raises", "%s: lookups / remove / add raised %s: %s" % (where, type(ex).__name__, str(ex)[:80])))
    return out


def check_callable_values(form):
    """members whose values are callable (a table from names to command classes or functions).  The name list of such members is
    outside this check's alphabet (see DESIGN), but lookup and removal are not: a supplied name reads back as its value, remove()
    takes it away like `del d[name]`, a second remove() is a KeyError, and the other members are untouched"""
    from pyscsi.utils.enum import Enum

    class Inq(object):
        pass
    m = {"INQUIRY": Inq, "LENGTH": len, "B": 2}
    e = Enum(dict(m)) if form == "dict" else Enum(**m)
    out = []
    for name, v in m.items():
        if getattr(e, name, None) is not v:
            out.append(("callable/value", "Enum with %s = %r: reads back as %r" % (name, v, getattr(e, name, None))))
    for name in ("INQUIRY", "LENGTH"):
        try:
            e.remove(name)
        except Exception as ex:   # noqa: BLE001
            out.append(("callable/remove_refused", "remove(%r) of a supplied name whose value is callable raised %s: %s" % (name, type(ex).__name__, ex)))
            continue
        if hasattr(e, name):
            out.append(("callable/remove_ineffective", "after remove(%r) the name still reads as %r" % (name, getattr(e, name))))
        try:
            e.remove(name)
            out.append(("callable/remove_missing_accepted", "a second remove(%r) was accepted" % name))
        except KeyError:
            pass
        except Exception as ex:   # noqa: BLE001
            out.append(("callable/remove_wrong_error", "a second remove(%r) raised %s" % (name, type(ex).__name__)))
    if getattr(e, "B", None) != 2 or e[2] != "B":
        out.append(("callable/other_member", "the member B = 2 changed: %r / %r" % (getattr(e, "B", None), e[2])))
    return out


def check_keys_alias(shape):
    """what `keys` hands out belongs to the caller: sorting, emptying or extending it, or walking it while adding / removing, leaves
    the enumeration agreeing with the dict that underwent the same operations"""
    from pyscsi.utils.enum import Enum
    out = []
    init = collections.OrderedDict([("Z", 1), ("M", 1), ("A", 2), ("D", 3)])
    e = Enum(dict(init))
    model = collections.OrderedDict(init)
    where = "keys result %s" % shape
    try:
        if shape == "sorted":
            ks = e.keys
            ks.sort()
        elif shape == "cleared":
            ks = e.keys
            ks.clear()
        elif shape == "extended":
            ks = e.keys
            ks.append("GHOST")
        elif shape == "walk_remove":
            for nm in e.keys:          # (the caller's own snapshot of the names: every one of them gets removed)
                e.remove(nm)
            model.clear()
        elif shape == "walk_add":
            n = 0
            for nm in e.keys:
                n += 1
                if n > 50:
                    out.append(("keys_alias/walk_add_endless", "walking keys while adding never ends: the list grows under the loop"))
                    break
                e.add(nm + "_ALIAS", getattr(e, nm))
                model[nm + "_ALIAS"] = model[nm]
        elif shape == "held":
            ks = e.keys
            e.add("LATE", 9)
            model["LATE"] = 9
            if "LATE" in ks and len(ks) != 4:
                pass
    except Exception as ex:   # noqa: BLE001
        out.append(("keys_alias/raises", "%s: %s: %s" % (where, type(ex).__name__, ex)))
        return out
    if sorted(e.keys) != sorted(model):
        out.append(("keys_alias/names", "%s: the enumeration now lists %r, the dict %r" % (where, sorted(e.keys), sorted(model))))
    for k, v in model.items():
        if getattr(e, k, "<missing>") != v:
            out.append(("keys_alias/value", "%s: .%s is %r, expected %r" % (where, k, getattr(e, k, "<missing>"), v)))
    first = {}
    for k, v in model.items():
        first.setdefault(v, k)
    for v, k in first.items():
        if e[v] != k:
            out.append(("keys_alias/reverse", "%s: reverse lookup of %r gives %r, the first name carrying it is %r" % (where, v, e[v], k)))
    try:
        e.add("Z" if "Z" in model else "NEWNAME", 5)
        if "Z" in model:
            out.append(("keys_alias/readd", "%s: adding the existing name 'Z' again was accepted" % where))
    except KeyError:
        pass
    return out


def check_names(form, name, shape):
    """construction with member names that could collide with parameter names of the constructor (keyword form binds by name)"""
    from pyscsi.utils.enum import Enum
    if shape == "single":
        m = collections.OrderedDict([(name, 7)])
    elif shape == "pair":
        m = collections.OrderedDict([(name, 7), ("zz_other", 8)])
    else:
        m = collections.OrderedDict([(name, {"LUN": 0, "TARGET": 1}), ("zz_flags", 5)])
    where = "Enum(%s) with a member called %r (%s)" % ("**mapping" if form == "kw" else "mapping dict", name, shape)
    try:
        e = Enum(**m) if form == "kw" else Enum(dict(m))
    except Exception as ex:   # noqa: BLE001
        return [("names/construct_raises", "%s raised %s: %s" % (where, type(ex).__name__, ex))]
    out = []
    if sorted(e.keys) != sorted(m):
        out.append(("names/keys", "%s: names %r, supplied %r" % (where, sorted(e.keys), sorted(m))))
    for k, v in m.items():
        try:
            if getattr(e, k) != v:
                out.append(("names/value", "%s: .%s is %r, supplied %r" % (where, k, getattr(e, k), v)))
        except AttributeError:
            out.append(("names/value", "%s: .%s is missing" % (where, k)))
        want = next(kk for kk, vv in m.items() if vv == v)
        try:
            got = e[equal_copy(v)]
        except Exception as ex:   # noqa: BLE001
            got = "raised %s: %s" % (type(ex).__name__, ex)
        if got != want:
            out.append(("names/reverse_lookup", "%s: reverse lookup of %r -> %r, expected %r" % (where, v, got, want)))
    try:
        if e[12345] != "":
            out.append(("names/reverse_lookup", "%s: reverse lookup of a value nobody carries -> %r" % (where, e[12345])))
    except Exception as ex:   # noqa: BLE001
        out.append(("names/reverse_lookup", "%s: reverse lookup of a value nobody carries raised %s: %s" % (where, type(ex).__name__, ex)))
    return out


def partitions(tier):
    # chunk c explores the histories whose first operation has index c mod NCHUNK (de-duplication is per partition)
    n = NCHUNK if tier == "quick" else 4 * NCHUNK
    return [[i, c, n] for i in range(len(INITS)) for c in range(n)] + [["names", 0]]


LOOKS = ("attrs", "copy", "inspect")


def look(e, kind):
    """what outside parties do with an enumeration without using its API: attribute probing, copying, inspection (results ignored -
    none of it is an addition or a removal)"""
    import copy
    import functools
    import inspect
    import pickle
    acts = {
        "attrs": [lambda: hasattr(e, "__annotations__"), lambda: getattr(e, "__wrapped__", None), lambda: dir(e), lambda: vars(e), lambda: repr(e),
                  lambda: functools.update_wrapper(lambda: 0, e), lambda: e.__doc__, lambda: e.__mro__, lambda: e.__subclasses__()],
        "copy": [lambda: copy.copy(e), lambda: copy.deepcopy(e), lambda: copy.copy(e()), lambda: copy.deepcopy(e()), lambda: pickle.dumps(e()),
                 lambda: e().__reduce_ex__(2)],
        "inspect": [lambda: inspect.getmembers(e), lambda: inspect.signature(e), lambda: inspect.getdoc(e), lambda: inspect.get_annotations(e),
                    lambda: inspect.classify_class_attrs(e), lambda: hash(e), lambda: e == e, lambda: bool(e)],
    }[kind]
    for a in acts:
        try:
            a()
        except Exception:   # noqa: BLE001
            pass


def build(init, hist, vals):
    """fresh real enums + reference dicts after replaying hist; returns (enums, models, last_outcome)"""
    from pyscsi.utils.enum import Enum
    vd = dict(vals)
    enums, models = [], []
    for form, items in init:
        mapping = collections.OrderedDict((k, vd[t]) for k, t in items)
        if form == "dict":
            e = Enum(dict(mapping))
        elif form == "op":
            from pyscsi.pyscsi.scsi_opcode import OpCode
            e = OpCode("X%d" % len(enums), 0x12, dict(mapping)).serviceaction
        else:
            e = Enum(**mapping)
        enums.append(e)
        models.append(collections.OrderedDict(mapping))
    viols = []
    for step, op in enumerate(hist):
        which, kind, name = op[0], op[1], op[2]
        e, m = enums[which], models[which]
        if kind == "look":
            look(e, name)
            continue
        if kind == "add":
            v = vd[op[3]]
            try:
                e.add(name, v)
                got = "ok"
            except KeyError:
                got = "KeyError"
            except Exception as ex:   # noqa: BLE001
                got = type(ex).__name__
            want = "KeyError" if name in m else "ok"
            if want == "ok":
                m[name] = v
            if got != want:
                viols.append(("add_outcome", "step %d %r: add -> %s, dict model -> %s" % (step, op, got, want)))
        else:
            try:
                e.remove(name)
                got = "ok"
            except KeyError:
                got = "KeyError"
            except Exception as ex:   # noqa: BLE001
                got = type(ex).__name__
            want = "ok" if name in m else "KeyError"
            if want == "ok":
                del m[name]
            if got != want:
                viols.append(("remove_outcome", "step %d %r: remove -> %s, dict model -> %s" % (step, op, got, want)))
    return enums, models, viols


def observe(e, vals):
    """public observation of one enum: (names in keys order, values by name, reverse lookups)"""
    ks = list(e.keys)
    got = []
    for n in NAMES:
        try:
            got.append((n, tag_of(getattr(e, n), vals)))
        except AttributeError:
            got.append((n, None))
    rev = tuple((t, e[equal_copy(v)]) for t, v in vals)
    # ... and of plain integers that are the CODE of an OpCode value (no member equals them unless it equals them as Python values do)
    rev += tuple(("int:%d" % c, e[c]) for c in (1, 0x12))
    return tuple(ks), tuple(got), rev


def check_state(enums, models, vals, where):
    out = []
    for i, (e, m) in enumerate(zip(enums, models)):
        ks, got, rev = observe(e, vals)
        if sorted(ks) != sorted(m.keys()) or len(ks) != len(set(ks)):
            out.append(("keys", "%s: enum %d keys %r, dict model %r" % (where, i, list(ks), list(m.keys()))))
        for n, t in got:
            want = tag_of(m[n], vals) if n in m else None
            if t != want:
                out.append(("value", "%s: enum %d .%s is %r, dict model %r" % (where, i, n, t, want)))
        for (t, name) in rev:
            v = int(t[4:]) if t.startswith("int:") else dict(vals)[t]
            want = ""
            for k, mv in m.items():
                if mv == v:
                    want = k
                    break
            if name != want:
                out.append(("reverse_lookup", "%s: enum %d [%s] -> %r, dict model %r" % (where, i, t, name, want)))
    return out


def shipped_snapshot():
    """names of every enumeration the library ships in its opcode tables (sets and their service-action tables)"""
    import pyscsi.pyscsi.scsi_enum_command as E
    snap = []
    for sname in ("spc", "sbc", "ssc", "smc", "mmc", "SCSI_STATUS"):
        st = getattr(E, sname)
        snap.append((sname, tuple(st.keys)))
        if sname != "SCSI_STATUS":
            for k in st.keys:
                snap.append((sname + "." + k, tuple(getattr(st, k).serviceaction.keys)))
    return tuple(snap)


def canon(enums, vals):
    return tuple(observe(e, vals) for e in enums)


def run_case(case):
    """case = [init index, history, nvalues]"""
    if case[0] == "names":
        return check_names(case[1], case[2], case[3])
    if case[0] == "unicode":
        return check_unicode(case[1], case[2])
    if case[0] == "keys_alias":
        return check_keys_alias(case[1])
    if case[0] == "unprintable":
        return check_unprintable(case[1], case[2])
    if case[0] == "callable":
        return check_callable_values(case[1])
    if case[0] == "opcode_dict":
        return check_opcode_dict(case[1], case[2])
    idx, hist, nv = case
    vals = values(nv)
    enums, models, v = build(INITS[idx], [tuple(o) for o in hist], vals)
    v += check_state(enums, models, vals, "after %r" % (hist,))
    return v


def replay(case):
    return run_case(case)


def run_partition(part, tier, seed):
    acc = Acc(seed)
    b = bounds(tier)
    vals = values(b["values"])
    if part[0] == "names":
        for form in ("kw", "dict"):
            for name in PARAM_LIKE_NAMES + NAMES + ["SPC.4", "A.B", "READ.10", "a..b", ".", "A.__class__", "x.y.z", "B.real"]:
                for shape in ("single", "pair", "nested"):
                    case = ["names", form, name, shape]
                    acc.case(case, nontrivial=True, key=tuple(case))
                    v = check_names(form, name, shape)
                    acc.transitions += 1
                    acc.traces += 1
                    for k, w in v:
                        acc.violation(k, w, case)
                    acc.outcome((tuple(case), tuple(k for k, _ in v)))
        for edit in ("none", "add", "delete", "change", "clear"):
            for read_first in (False, True):
                case = ["opcode_dict", edit, read_first]
                acc.case(case, nontrivial=True, key=tuple(case))
                v = check_opcode_dict(edit, read_first)
                acc.transitions += 3
                acc.traces += 1
                for k, w in v:
                    acc.violation(k, w, case)
                acc.outcome((tuple(case), tuple(k for k, _ in v)))
        for shape in ("sorted", "cleared", "extended", "walk_remove", "walk_add", "held"):
            case = ["keys_alias", shape]
            acc.case(case, nontrivial=True, key=tuple(case))
            v = check_keys_alias(shape)
            acc.transitions += 4
            acc.traces += 1
            for k, w in v:
                acc.violation(k, w, case)
            acc.outcome((tuple(case), tuple(k for k, _ in v)))
        for form in ("dict", "kw"):
            case = ["callable", form]
            acc.case(case, nontrivial=True, key=tuple(case))
            v = check_callable_values(form)
            acc.transitions += 6
            acc.traces += 1
            for k, w in v:
                acc.violation(k, w, case)
            acc.outcome((tuple(case), tuple(k for k, _ in v)))
        for form in ("dict", "kw"):
            for kind in ("norepr", "hugeint", "nested", "opcode_float"):
                case = ["unprintable", form, kind]
                acc.case(case, nontrivial=True, key=tuple(case))
                v = check_unprintable(form, kind)
                acc.transitions += 6
                acc.traces += 1
                for k, w in v:
                    acc.violation(k, w, case)
                acc.outcome((tuple(case), tuple(k for k, _ in v)))
        for n1 in UNICODE_NAMES:
            for n2 in UNICODE_NAMES:
                case = ["unicode", n1, n2]
                acc.case(case, nontrivial=True, key=tuple(case))
                v = check_unicode(n1, n2)
                acc.transitions += 4
                acc.traces += 1
                for k, w in v:
                    acc.violation(k, w, case)
                acc.outcome((tuple(case), tuple(k for k, _ in v)))
        acc.stateset.add(hash("names"))
        return acc
    idx, chunk = part[0], part[1]
    nchunk = part[2] if len(part) > 2 else NCHUNK
    ops = []
    for which in (0, 1):
        for n in NAMES:
            for t, _ in vals:
                ops.append((which, "add", n, t))
            ops.append((which, "remove", n))
        for kind in LOOKS:
            ops.append((which, "look", kind))
    shipped0 = shipped_snapshot()
    # the OpCode-made enumerations add breadth (more empty starting points); they are explored one level shallower
    depth = b["depth"] - (1 if any(form == "op" for form, _ in INITS[idx]) else 0)
    enums, models, _ = build(INITS[idx], [], vals)
    seen = {canon(enums, vals)}
    frontier = collections.deque([()])
    for k, w in check_state(enums, models, vals, "initial"):
        acc.violation(k, w, [idx, [], b["values"]])
    acc.case([idx, [], b["values"]], nontrivial=False, key=(idx, ()))
    while frontier:
        hist = frontier.popleft()
        if len(hist) >= depth:
            continue
        for opi, op in enumerate(ops):
            if not hist and opi % nchunk != chunk:
                continue
            h2 = hist + (op,)
            case = [idx, [list(o) for o in h2], b["values"]]
            enums, models, v = build(INITS[idx], h2, vals)
            v = [x for x in v if x[1].startswith("step %d " % (len(h2) - 1))]    # earlier steps were judged when first explored
            v += check_state(enums, models, vals, "after %r" % (h2,))
            acc.transitions += 1
            acc.traces += 1
            acc.case(case, nontrivial=True, key=(idx, h2))
            for k, w in v:
                acc.violation(k, w, case)
            c = canon(enums, vals)
            acc.outcome(c)
            if c not in seen:
                seen.add(c)
                frontier.append(h2)
    acc.stateset |= {hash((idx, c)) for c in seen}
    if shipped_snapshot() != shipped0:
        diff = [a[0] for a, b in zip(shipped_snapshot(), shipped0) if a != b][:5]
        acc.violation("shipped_tables_changed", "operating on unrelated enumerations changed the library's own tables: %r" % diff, [idx, [], b["values"]])
    return acc
