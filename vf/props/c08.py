"""C08 - sense data is always decodable and printable, with the right key/ASC/ASCQ."""
import contextlib
import io

from vf.runner import Acc
from vf.spec import bits

ID = "C08"
OPT_QUICK_ALL = True      # every partition also in a child interpreter started with -O
LEVEL = "exploration"
TECHNIQUE = "exhaustive enumeration of sense buffers (response codes x valid bit x sense keys x all 65536 ASC/ASCQ pairs x all lengths 1..252 x filler bytes); construction, str(), print() and print_data (also in a process whose sys.stdout is None or offers write() only) must not raise and key/ASC/ASCQ are compared with SPC's positions extracted by the independent bit oracle"
RULE = ("quick: all 65536 ASC/ASCQ pairs x response codes {70h,72h} (key 5) + {71h,73h} (key 6); 16 keys x 9 response codes {70-73,00,6F,74,7E,7F} "
        "x valid bit x 64 ASC/ASCQ pairs; every length 1..252 x 9 response codes x filler {00,FF} x ADDITIONAL SENSE LENGTH {exact n-7, 0, FFh} with and without print_data; descriptor format x 16 keys x sense data descriptors of 18 types x 7 ADDITIONAL LENGTH values x 4 contents (incl. nested sense data) singly and in pairs; every byte position of the minimal buffer x 256 values x 16 keys; through the real device classes on both transports: every sequence of 1-3 CHECK CONDITIONs, each with its own sense data, over fresh commands and over one command object submitted again (the error describes the sense data of that execution); the 9 codes x valid x 16 keys x 64 pairs family also copied (copy.copy, copy.deepcopy) and pickled, the clone reporting the same; all ordered pairs and triples of 12 sense buffers built in sequence and kept alive, each compared afterwards with what it reports alone; "
        "thorough: the full product 9 codes x 2 valid x 16 keys x 65536 pairs. Non-trivial = anything other than the all-zero 18-byte fixed "
        "buffer; distinct = distinct buffers (x print flag).")
ASSUMPTIONS = [
    "SPC-4 positions: fixed format (70h/71h) key = byte 2 bits 3:0, ASC byte 12, ASCQ byte 13; descriptor format (72h/73h) key = byte 1 bits 3:0, ASC byte 2, ASCQ byte 3; bytes beyond the buffer read as zero",
    "T10 wording is asserted only for an anchor list of 46 ASC/ASCQ assignments and the 15 assigned sense keys (case- and punctuation-insensitive containment in str()); for all other codes only 'does not raise' and the numeric values are required",
    "for unknown response codes only 'does not raise' is required",
]
CODES = [0x70, 0x71, 0x72, 0x73, 0x00, 0x6F, 0x74, 0x7E, 0x7F]
ANCHORS = {
    0x0000: "NO ADDITIONAL SENSE INFORMATION", 0x0001: "FILEMARK DETECTED", 0x0200: "NO SEEK COMPLETE", 0x0300: "PERIPHERAL DEVICE WRITE FAULT",
    0x0400: "LOGICAL UNIT NOT READY, CAUSE NOT REPORTABLE", 0x0401: "LOGICAL UNIT IS IN PROCESS OF BECOMING READY",
    0x0402: "LOGICAL UNIT NOT READY, INITIALIZING COMMAND REQUIRED", 0x0403: "LOGICAL UNIT NOT READY, MANUAL INTERVENTION REQUIRED",
    0x0404: "LOGICAL UNIT NOT READY, FORMAT IN PROGRESS", 0x0800: "LOGICAL UNIT COMMUNICATION FAILURE", 0x0C00: "WRITE ERROR",
    0x1100: "UNRECOVERED READ ERROR", 0x1400: "RECORDED ENTITY NOT FOUND", 0x1500: "RANDOM POSITIONING ERROR",
    0x1700: "RECOVERED DATA WITH NO ERROR CORRECTION APPLIED", 0x1A00: "PARAMETER LIST LENGTH ERROR",
    0x1D00: "MISCOMPARE DURING VERIFY OPERATION", 0x2000: "INVALID COMMAND OPERATION CODE", 0x2100: "LOGICAL BLOCK ADDRESS OUT OF RANGE",
    0x2400: "INVALID FIELD IN CDB", 0x2500: "LOGICAL UNIT NOT SUPPORTED", 0x2600: "INVALID FIELD IN PARAMETER LIST", 0x2700: "WRITE PROTECTED",
    0x2800: "NOT READY TO READY CHANGE, MEDIUM MAY HAVE CHANGED", 0x2900: "POWER ON, RESET, OR BUS DEVICE RESET OCCURRED",
    0x2901: "POWER ON OCCURRED", 0x2902: "SCSI BUS RESET OCCURRED", 0x2A01: "MODE PARAMETERS CHANGED", 0x2A09: "CAPACITY DATA HAS CHANGED",
    0x2C00: "COMMAND SEQUENCE ERROR", 0x3000: "INCOMPATIBLE MEDIUM INSTALLED", 0x3100: "MEDIUM FORMAT CORRUPTED", 0x3A00: "MEDIUM NOT PRESENT",
    0x3A01: "MEDIUM NOT PRESENT - TRAY CLOSED", 0x3A02: "MEDIUM NOT PRESENT - TRAY OPEN", 0x3F0E: "REPORTED LUNS DATA HAS CHANGED",
    0x3F03: "INQUIRY DATA HAS CHANGED", 0x4400: "INTERNAL TARGET FAILURE", 0x4700: "SCSI PARITY ERROR", 0x4900: "INVALID MESSAGE ERROR",
    0x4E00: "OVERLAPPED COMMANDS ATTEMPTED", 0x5302: "MEDIUM REMOVAL PREVENTED", 0x5500: "SYSTEM RESOURCE FAILURE",
    0x5D00: "FAILURE PREDICTION THRESHOLD EXCEEDED", 0x6400: "ILLEGAL MODE FOR THIS TRACK", 0x0005: "END-OF-DATA DETECTED",
}
KEYS = {0: "NO SENSE", 1: "RECOVERED ERROR", 2: "NOT READY", 3: "MEDIUM ERROR", 4: "HARDWARE ERROR", 5: "ILLEGAL REQUEST", 6: "UNIT ATTENTION",
        7: "DATA PROTECT", 8: "BLANK CHECK", 9: "VENDOR SPECIFIC", 0xA: "COPY ABORTED", 0xB: "ABORTED COMMAND", 0xD: "VOLUME OVERFLOW",
        0xE: "MISCOMPARE", 0xF: "COMPLETED"}


def bounds(tier):
    return {"full_product": tier != "quick"}


def norm(s):
    return "".join(ch for ch in s.upper() if ch.isalnum())


def make(code, valid, key, asc, ascq, length=None, filler=0x00, adl="exact"):
    """sense buffer; adl: ADDITIONAL SENSE LENGTH = 'exact' (n-7 of the buffer actually returned, the well-formed value), 0 or 0xFF"""
    desc = code in (0x72, 0x73)
    b = bytearray([filler]) * max(length or (8 if desc else 18), 8 if desc else 18)
    b[0] = code | (0x80 if valid else 0)
    if desc:
        b[1] = (filler & 0xF0) | key
        b[2], b[3] = asc, ascq
    else:
        b[2] = (filler & 0xF0) | key
        b[12], b[13] = asc, ascq
    if length is not None:
        b = b[:length]
    if len(b) > 7:
        b[7] = max(len(b) - 8, 0) if adl == "exact" else adl
    return bytes(b)


def expected(buf):
    """(key, asc, ascq) per SPC positions, zero beyond the buffer; None for unknown response codes"""
    code = buf[0] & 0x7F
    pad = bytes(buf) + bytes(32)
    if code in (0x70, 0x71):
        return bits.extract(pad, 2, 3, 4), pad[12], pad[13]
    if code in (0x72, 0x73):
        return bits.extract(pad, 1, 3, 4), pad[2], pad[3]
    return None


_LOG = []


class _WriteOnly(object):
    """the least print() asks of a stream"""

    def write(self, text):
        return len(text)


def _quiet_logger():
    """a logger that formats its records (into a sink) without touching stderr; formatting errors are raised, not swallowed"""
    import logging
    if not _LOG:
        lg = logging.getLogger("vf.c08.sink")
        lg.propagate = False
        lg.setLevel(logging.DEBUG)

        class H(logging.Handler):
            def emit(self, record):
                self.format(record)

            def handleError(self, record):
                raise
        h = H()
        h.setFormatter(logging.Formatter("%(message)s"))
        lg.addHandler(h)
        _LOG.append(lg)
    return _LOG[0]


def run_device(case):
    from vf.props import c07
    _, mode, tr, steps = case
    v = c07.run_case([mode, tr, [tuple(x) for x in steps]])
    return [("device/" + k.split("/", 1)[1], w) for k, w in v if "sense" in k or "error_changed" in k or "raises" in k]


def run_case(case, obs=None):
    if isinstance(case[0], str) and case[0] == "device":
        return run_device(case)
    from pyscsi.pyscsi.scsi_sense import SCSICheckCondition
    if isinstance(case[0], str) and case[0] == "seq":
        return run_sequence(case[1])
    buf = bytes.fromhex(case[0]) if isinstance(case[0], str) else bytes(case[0])
    show = bool(case[1])
    tag = "%02x" % (buf[0] & 0x7F)
    fmt = {0x70: "fixed", 0x71: "fixed_deferred", 0x72: "descriptor", 0x73: "descriptor_deferred"}.get(buf[0] & 0x7F, "unknown_code")
    out = []
    try:
        e = SCSICheckCondition(bytearray(buf), print_data=show)
    except Exception as ex:   # noqa: BLE001
        return [("construct_raises/%s" % fmt, "SCSICheckCondition(%s) raised %s: %s" % (buf[:20].hex(), type(ex).__name__, ex))]
    text = None
    sink = io.StringIO()
    try:
        with contextlib.redirect_stdout(sink):
            text = str(e)
            print(e)
            mark = len(sink.getvalue())
            e.print_data()
        # the dump goes to the stream that is sys.stdout NOW (replaced after the library was imported), one line per decoded field
        dumped = sink.getvalue()[mark:].splitlines()
        if len(dumped) != len(e.data) or any((" -> 0x%02X" % v) not in ln for ln, v in zip(dumped, e.data.values())):
            out.append(("print_data_elsewhere/%s" % fmt, "print_data() of the error for sense %s wrote %d line(s) to the current sys.stdout, the decoded data have %d fields"
                        % (buf[:20].hex(), len(dumped), len(e.data))))
    except Exception as ex:   # noqa: BLE001
        exp = expected(buf)
        what = "str()/print of sense %s (len %d) raised %s: %s" % (buf[:20].hex(), len(buf), type(ex).__name__, ex)
        if exp is None:
            out.append(("print_raises/unknown_response_code", what))
        elif exp[0] not in KEYS:
            out.append(("print_raises/%s/reserved_sense_key" % fmt, what))
        elif exp[1] < 0x80 and exp[2] < 0x80:
            out.append(("print_raises/%s/%s" % (fmt, "anchor_code" if (exp[1] << 8 | exp[2]) in ANCHORS else "unlisted_asc_ascq"), what))
        else:
            out.append(("print_raises/%s/vendor_code" % fmt, what))
    exp = expected(buf)
    if obs is not None:
        obs.append((text, exp))
    if text is not None and not show:
        # the recipe the shipped tools show: catch the error, switch the dump on afterwards (ex.show_data = True), print it
        try:
            e2 = SCSICheckCondition(bytearray(buf))
            e2.show_data = True
            s2 = io.StringIO()
            with contextlib.redirect_stdout(s2):
                t2 = str(e2)
            e2.show_data = False
            if t2 != text or len(s2.getvalue().splitlines()) != len(e2.data):
                out.append(("show_data_assignment/%s" % fmt, "sense %s: after ex.show_data = True, str() gives %r and dumps %d lines (text without dump %r, %d fields)"
                            % (buf[:20].hex(), t2, len(s2.getvalue().splitlines()), text, len(e2.data))))
        except Exception as ex:   # noqa: BLE001
            out.append(("show_data_assignment/%s" % fmt, "sense %s: ex.show_data = True; str(ex) raised %s: %s" % (buf[:20].hex(), type(ex).__name__, ex)))
    if text is not None:
        # a process without standard output (daemon started with fd 1 closed, pythonw: sys.stdout is None - print() tolerates that)
        import sys
        saved = sys.stdout
        for label, stream in (("is None", None), ("is an object that offers write() only (a log / GUI redirector)", _WriteOnly())):
            try:
                sys.stdout = stream
                t0 = str(e)
                print(e)
                e.print_data()
                sys.stdout = saved
                if t0 != text:
                    out.append(("no_stdout_differs/%s" % fmt, "str() of the error for sense %s in a process whose sys.stdout %s gives %r, otherwise %r" % (buf[:20].hex(), label, t0, text)))
            except Exception as ex:   # noqa: BLE001
                sys.stdout = saved
                out.append(("no_stdout_raises/%s" % fmt, "str()/print/print_data of the error for sense %s (print_data=%s) in a process whose sys.stdout %s raised %s: %s"
                            % (buf[:20].hex(), show, label, type(ex).__name__, ex)))
            finally:
                sys.stdout = saved
    if case[-1] == "clone" and text is not None:
        # ... and gets reported by Python's own machinery: traceback formatting, logging with exc_info, notes, attribute probing
        import logging
        import traceback
        for how, fn in (("repr()", lambda: repr(e)), ("'%r' formatting", lambda: "%r" % (e,)), ("str() of a list holding the error", lambda: str([e])),
                        ("traceback.format_exception", lambda: "".join(traceback.format_exception(type(e), e, None))),
                        ("hasattr/getattr with a default", lambda: (hasattr(e, "no_such_attribute"), getattr(e, "errno", None))),
                        ("add_note", lambda: e.add_note("seen by the harness")),
                        ("logging with exc_info", lambda: _quiet_logger().error("sense", exc_info=(type(e), e, None)))):
            try:
                r = fn()
                if how.startswith("traceback") and text not in r:
                    out.append(("report_differs/%s" % fmt, "%s of the error for sense %s lacks its text %r: %r" % (how, buf[:20].hex(), text, r[-200:])))
            except Exception as ex:   # noqa: BLE001
                out.append(("report_raises/%s" % fmt, "%s of the error for sense %s raised %s: %s" % (how, buf[:20].hex(), type(ex).__name__, ex)))
        # the error object travels: copy.copy / copy.deepcopy / pickle (what multiprocessing and concurrent.futures do with a
        # worker's exception) must give an error that reports the same
        import copy
        import pickle
        for how, fn in (("copy.copy", copy.copy), ("copy.deepcopy", copy.deepcopy), ("pickle", lambda x: pickle.loads(pickle.dumps(x)))):
            try:
                c2 = fn(e)
                with contextlib.redirect_stdout(io.StringIO()):
                    t2 = str(c2)
                same = (t2 == text and c2.data == e.data and (c2.asc, c2.ascq, c2.valid, c2.response_code) == (e.asc, e.ascq, e.valid, e.response_code))
                if not same:
                    out.append(("clone_differs/%s" % fmt, "%s of the error for sense %s reports %r, the original %r" % (how, buf[:20].hex(), t2, text)))
            except Exception as ex:   # noqa: BLE001
                out.append(("clone_raises/%s" % fmt, "%s of the error for sense %s raised %s: %s" % (how, buf[:20].hex(), type(ex).__name__, ex)))
    if bool(e.valid) != bool(buf[0] & 0x80) or e.response_code != (buf[0] & 0x7F):
        out.append(("byte0/%s" % fmt, "valid/response_code = %r/%#x for byte 0 = %#04x" % (e.valid, e.response_code, buf[0])))
    if exp is not None:
        try:
            got = (e.data["sense_key"], e.asc, e.ascq)
        except Exception as ex:   # noqa: BLE001
            got = "unreadable (%s)" % type(ex).__name__
        if got != exp:
            out.append(("fields/%s" % fmt, "sense %s: key/asc/ascq reported %r, SPC positions hold %r" % (buf[:20].hex(), got, exp)))
        if text is not None:
            code = exp[1] << 8 | exp[2]
            if code in ANCHORS and norm(ANCHORS[code]) not in norm(text):
                out.append(("text/asc_%04x" % code, "str() = %r lacks the T10 text %r" % (text, ANCHORS[code])))
            if exp[0] in KEYS and norm(KEYS[exp[0]]) not in norm(text):
                out.append(("text/key_%x" % exp[0], "str() = %r lacks the sense key name %r" % (text, KEYS[exp[0]])))
    return out


def replay(case):
    return run_case(case)


SEQ_ALPHA = [make(c, v, k, a, q) for (c, v, k, a, q) in (
    (0x70, 0, 5, 0x24, 0x00), (0x70, 1, 6, 0x29, 0x00), (0x70, 0, 2, 0x04, 0x01), (0x71, 0, 3, 0x11, 0x00), (0x71, 0, 1, 0x17, 0x00),
    (0x72, 0, 6, 0x29, 0x01), (0x72, 0, 5, 0x20, 0x00), (0x72, 1, 0xB, 0x47, 0x00), (0x73, 0, 4, 0x44, 0x00), (0x73, 0, 7, 0x27, 0x00),
    (0x7E, 0, 5, 0x24, 0x00), (0x70, 0, 0, 0x00, 0x00))]


def observe_exc(e):
    import contextlib
    import io
    sink = io.StringIO()
    try:
        with contextlib.redirect_stdout(sink):
            text = str(e)
            e.print_data()
    except Exception as ex:   # noqa: BLE001
        text = "raised " + type(ex).__name__
    return (text, sink.getvalue(), tuple(sorted((k, v) for k, v in e.data.items())), getattr(e, "asc", None), getattr(e, "ascq", None),
            bool(e.valid), e.response_code)


def run_sequence(idxs):
    """several errors alive at once: each must keep reporting its own buffer (what it reports when constructed alone)"""
    from pyscsi.pyscsi.scsi_sense import SCSICheckCondition
    solo = [observe_exc(SCSICheckCondition(bytearray(SEQ_ALPHA[i]))) for i in idxs]
    live = [SCSICheckCondition(bytearray(SEQ_ALPHA[i])) for i in idxs]
    out = []
    for pos, (i, e) in enumerate(zip(idxs, live)):
        now = observe_exc(e)
        if now != solo[pos]:
            out.append(("sequence/earlier_error_changed", "errors built from %r in this order: error %d reports %r, alone it reports %r"
                        % ([SEQ_ALPHA[j][:4].hex() for j in idxs], pos, now[0], solo[pos][0])))
    return out


def partitions(tier):
    parts = [["pairs", c, hi] for c in (0x70, 0x71, 0x72, 0x73) for hi in range(0, 256, 16)]
    parts += [["keys", c] for c in CODES]
    parts += [["lengths", c] for c in CODES]
    parts += [["sequences", i] for i in range(len(SEQ_ALPHA))]
    parts += [["descriptors", c, k] for c in (0x72, 0x73) for k in range(16)]
    parts += [["bytes", c] for c in (0x70, 0x71, 0x72, 0x73)]
    parts += [["device", tr] for tr in ("sgio", "iscsi")]
    if bounds(tier)["full_product"]:
        parts += [["full", c, v, k] for c in CODES for v in (0, 1) for k in range(16)]
    return parts


def run_partition(part, tier, seed):
    acc = Acc(seed)

    def do(buf, show=False, clone=False):
        case = [buf.hex(), int(show)] + (["clone"] if clone else [])
        acc.case(case, nontrivial=any(buf[1:]) or buf[0] != 0x70 or show, key=(buf, show))
        obs = []
        try:
            v = run_case([buf, show] + (["clone"] if clone else []), obs)
        except Exception:
            import traceback
            v = [("harness_error", traceback.format_exc()[-500:])]
        for k, w in v:
            acc.violation(k, w, case)
        acc.outcome((obs[0][0] if obs else None, tuple(k for k, _ in v)))

    kind = part[0]
    if kind == "device":
        # the error raised for an execution describes the sense data of THAT execution: one command object per kind submitted again
        # and again (a retry loop), every CHECK CONDITION with its own sense data, alternating fixed / descriptor format
        import itertools

        from vf.props import c07
        tr = part[1]
        for n in (1, 2, 3):
            for cks in itertools.product(("tur", "read10", "inquiry"), repeat=n):
                for mode in ("rehist", "hist"):
                    case = ["device", mode, tr, [[c, "CC"] for c in cks]]
                    acc.case(case, nontrivial=True, key=repr(case))
                    try:
                        v = run_case(case)
                    except Exception:
                        import traceback
                        v = [("harness_error", traceback.format_exc()[-500:])]
                    for k, w in v:
                        acc.violation(k, w, case)
                    acc.outcome((repr(case), tuple(k for k, _ in v)))
        return acc
    if kind == "sequences":
        import itertools
        first = part[1]
        n = len(SEQ_ALPHA)
        for rest in itertools.chain(itertools.product(range(n), repeat=1), itertools.product(range(n), repeat=2)):
            idxs = [first] + list(rest)
            case = ["seq", idxs]
            acc.case(case, nontrivial=True, key=("seq", tuple(idxs)))
            try:
                v = run_sequence(idxs)
            except Exception:
                import traceback
                v = [("harness_error", traceback.format_exc()[-500:])]
            for k, w in v:
                acc.violation(k, w, case)
            acc.outcome(("seq", tuple(idxs), tuple(k for k, _ in v)))
        return acc
    if kind == "descriptors":
        # descriptor format: every sense key x sense data descriptors of every type 00h-0Fh, 80h, FFh x ADDITIONAL LENGTH
        # {0, 1, 2, the standard's length, 6, 0x14, beyond the buffer} x contents {00, FF, nested fixed sense, nested descriptor sense};
        # singly, and in pairs (second one after the first)
        _, c, k = part
        std_len = {0x00: 0x0A, 0x01: 0x0A, 0x02: 0x06, 0x03: 0x02, 0x04: 0x02, 0x05: 0x02, 0x06: 0x06, 0x07: 0x06, 0x08: 0x0A, 0x09: 0x0C,
                   0x0A: 0x1E, 0x0B: 0x02, 0x0C: 0x16, 0x0D: 0x0E, 0x0E: 0x1E}
        types = list(range(0x10)) + [0x80, 0xFF]
        nested = [bytes([0x70, 0, 3, 0, 0, 0, 0, 10, 0, 0, 0, 0, 0x11, 0x00, 0, 0, 0, 0]), bytes([0x72, 3, 0x11, 0, 0, 0, 0, 0])]

        def desc(t, ln, fill):
            if fill in (0, 0xFF):
                body = bytes([fill]) * min(ln, 0x40)
            else:
                body = (bytes([0, 2]) + nested[fill - 1])[:min(ln, 0x40)]      # (forwarded sense: reserved byte, status, then the sense data)
                body += bytes(min(ln, 0x40) - len(body))
            return bytes([t, ln]) + body

        singles = []
        for t in types:
            for ln in sorted({0, 1, 2, 6, 0x14, std_len.get(t, 4), 0xF4}):
                for fill in (0, 0xFF, 1, 2):
                    singles.append(desc(t, ln, fill))
        for asc, ascq in ((0x0D, 0x02), (0x26, 0x0D), (0x00, 0x00)):
            for d1 in singles:
                b = bytearray([c, k, asc, ascq, 0, 0, 0, len(d1)]) + d1
                do(bytes(b))
                do(bytes(b), True)
        small = [desc(t, ln, fill) for t in (0x00, 0x02, 0x09, 0x0C, 0x0D, 0x80) for ln, fill in ((0, 0), (2, 0xFF), (std_len.get(t, 4), 1))]
        for d1 in small:
            for d2 in small:
                b = bytearray([c, k, 0x0D, 0x02, 0, 0, 0, len(d1) + len(d2)]) + d1 + d2
                do(bytes(b))
        return acc
    if kind == "bytes":
        # every byte position of the minimal well-formed buffer (18 fixed / 8+12 descriptor) x all 256 values x all 16 sense keys
        c = part[1]
        for k in range(16):
            base = bytearray(make(c, 0, k, 0x24, 0x00))
            if c in (0x72, 0x73):
                base += bytes([0x00, 0x0A]) + bytes(10)
                base[7] = 12
            for i in range(len(base)):
                for v in range(256):
                    if base[i] != v:
                        m = bytearray(base)
                        m[i] = v
                        do(bytes(m))
        return acc
    if kind == "pairs":
        _, c, hi = part
        key = 5 if c in (0x70, 0x72) else 6
        for asc in range(hi, hi + 16):
            for ascq in range(256):
                do(make(c, 0, key, asc, ascq))
    elif kind == "keys":
        c = part[1]
        pairs = [(a, q) for a in (0x00, 0x04, 0x24, 0x29, 0x3A, 0x40, 0x7F, 0x80) for q in (0x00, 0x01, 0x02, 0x0E, 0x55, 0x7F, 0x80, 0xFF)]
        for v in (0, 1):
            for k in range(16):
                for a, q in pairs:
                    do(make(c, v, k, a, q), clone=True)
    elif kind == "lengths":
        c = part[1]
        for n in range(1, 253):
            for filler in (0x00, 0xFF):
                for adl in ("exact", 0, 0xFF):
                    for show in (False, True):
                        do(make(c, 1, 3, 0x11, 0x04, length=n, filler=filler, adl=adl), show)
    else:
        _, c, v, k = part
        for asc in range(256):
            for ascq in range(256):
                do(make(c, v, k, asc, ascq))
    return acc
