"""C14 - operation codes, service actions and status codes are the T10 assignments."""
from vf.runner import Acc
from vf.spec import opcodes as T

ID = "C14"
OPT_QUICK_ALL = True      # every partition also in a child interpreter started with -O
LEVEL = "exploration"
TECHNIQUE = "complete enumeration of the five opcode tables, their service-action tables, the status table and all 256 opcode values against an independent T10 table"
RULE = ("every command class x 8 operation codes of all four length groups (constructor with a re-made OpCode, marshall_cdb with all fields set): refused, or a CDB of the length its first byte prescribes; the service-action table of every entry of every set edited in the documented way (vendor action added, first action re-numbered, last action removed): every other entry of every set unchanged; every named entry of spc/sbc/ssc/smc/mmc, every entry of every service-action table, every SCSI_STATUS entry, every pair "
        "of sets sharing a name, every name of any set looked up on every set (refused, or the T10 value; tables unchanged afterwards), copies (copy, deepcopy) of every entry and of a command built from it, every table walked again after each assignment of another value or type to a public attribute (opcode, cdb, page_code, result, buffers) of a command built from each entry, and init_cdb for each of the 256 opcode values, also carried by OpCode objects of every shipped name (and names of the 32-byte / variable-length commands) with the entry's own service-action table, and by objects re-pointed through the value setter from a code of each group. Non-trivial = the oracle has its own T10 value "
        "for the entry (or a length/refusal expectation for the opcode value); distinct = distinct (kind, set, name|value).")
ASSUMPTIONS = [
    "oracle: vf/spec/opcodes.py transcribed from T10 op-num / SPC-4 / SBC-3 / SSC-4 / SMC-3 / MMC-6 / SAM-5 (cross-checked at setup against scsi/scsi.h and linux/cdrom.h)",
    "OpCode.name strings are not judged (the property speaks of values)",
    "SGIO_ERROR (0xFF) in SCSI_STATUS is not a T10 name and is not judged",
]
SETS = ["spc", "sbc", "ssc", "smc", "mmc"]
SERIAL = True


def _sets():
    """the five command sets - and every other enumeration of OpCode objects the module exposes (a table added later is walked too)"""
    import pyscsi.pyscsi.scsi_enum_command as E
    from pyscsi.pyscsi.scsi_opcode import OpCode
    out = {s: getattr(E, s) for s in SETS}
    for name, obj in sorted(vars(E).items()):
        if name in out or name.startswith("_") or not isinstance(obj, type(E.spc)) or obj is E.SCSI_STATUS:
            continue
        try:
            ks = obj.keys
            if ks and all(isinstance(getattr(obj, k), OpCode) for k in ks):
                out[name] = obj
        except Exception:   # noqa: BLE001
            pass
    return E, out


def partitions(tier):
    return [["tables"], ["init_cdb"], ["lookups"], ["after_use"], ["sa_edit"], ["mismatch"]]


def t10_any(name):
    """T10 value of a command name irrespective of the set (for names a set does not list itself)"""
    vals = {T.t10_value(s, name) for s in SETS} - {None}
    return vals


def check_lookup(setname, name):
    """looking a name up on a set that does not list it: either it is refused, or what comes back has the T10 value of that name;
    every table is walked again afterwards"""
    E, sets = _sets()
    st = sets[setname]
    before = list(st.keys)
    out = []
    try:
        op = getattr(st, name)
    except AttributeError:
        op = None
    except Exception as e:   # noqa: BLE001
        return [("lookup/raises", "%s.%s raised %s: %s" % (setname, name, type(e).__name__, e))]
    after = list(st.keys)
    if op is not None and name not in before:
        want = t10_any(name)
        v = getattr(op, "value", None)
        if want and v not in want:
            out.append(("lookup/alias_value/%s.%s" % (setname, name), "%s.%s resolves to %r although the set does not list it; T10 assigns %s to that name"
                        % (setname, name, ("%#04x" % v) if isinstance(v, int) else v, sorted("%#04x" % x for x in want))))
    # (a table that merely grows by a correctly valued alias does not contradict this property; the values are walked again afterwards)
    return out


def check_entry(setname, key):
    E, sets = _sets()
    out = []
    op = getattr(sets[setname], key)
    want = T.t10_value(setname, key)
    if want is not None and op.value != want:
        out.append(("opcode/%s.%s" % (setname, key), "%s.%s = %#04x, T10 assigns %#04x" % (setname, key, op.value, want)))
    return out, want is not None


def check_sa(setname, key, sakey):
    E, sets = _sets()
    op = getattr(sets[setname], key)
    v = getattr(op.serviceaction, sakey)
    want = T.SA_ALL.get(sakey)
    out = []
    if want is not None and v not in want:
        out.append(("serviceaction/%s.%s.%s" % (setname, key, sakey),
                    "%s.%s service action %s = %#x, T10 assigns %s" % (setname, key, sakey, v, sorted(want))))
    return out, want is not None


def check_init(value, name="X", sa=None, first=None):
    """the CDB length follows from the operation code alone, whatever the OpCode object is called, whatever service actions it lists
    and whatever code the object carried before (`first`: the object is created with that code and re-pointed through its value setter)"""
    from pyscsi.pyscsi.scsi_command import SCSICommand
    from pyscsi.pyscsi.scsi_opcode import OpCode
    want = T.cdb_length(value)
    out = []
    try:
        if first is None:
            op = OpCode(name, value, sa or {})
        else:
            op = OpCode(name, first, sa or {})
            try:
                SCSICommand.init_cdb(op)
            except Exception:   # noqa: BLE001
                pass
            op.value = value
        cdb = SCSICommand.init_cdb(op)
        got = len(cdb)
        if want is None:
            out.append(("init_cdb/accepts", "init_cdb(opcode %#04x%s) returned %d bytes; the group has no fixed length and must be refused" % (value, "" if name == "X" else " named %r" % name, got)))
        elif got != want or any(cdb):
            out.append(("init_cdb/length", "init_cdb(opcode %#04x) -> %d bytes, group prescribes %d" % (value, got, want)))
    except Exception as e:
        if want is not None or type(e).__name__ != "OpcodeException":
            out.append(("init_cdb/raises", "init_cdb(opcode %#04x) raised %s, expected %s" % (value, type(e).__name__, want or "OpcodeException")))
    return out


AFTER_USE_WALKS = [0]


def _after_use_values():
    from pyscsi.pyscsi.scsi_opcode import OpCode
    return [("opcode", 0x88), ("opcode", 0xFF), ("opcode", OpCode("X", 0x12, {"A": 1})), ("opcode", None), ("opcode", "28"), ("opcode", True),
            ("cdb", bytearray(16)), ("cdb", b"\xff" * 6), ("page_code", 0x3F), ("result", {"opcode": 1}), ("datain", bytearray(4)), ("dataout", bytearray(4))]


AFTER_USE = list(range(12))


def check_after_use(name, st, key, i):
    """the tables are shared by every command built from them: whatever a caller does with a command it built (assigning its public
    attributes other values and other TYPES of values) must leave every table entry at its T10 value"""
    from vf import cmdspace as CS
    from vf.spec import cdb as S
    E, sets = _sets()
    attr, v = _after_use_values()[i]
    op = CS.get_opcode(st, key)
    try:
        cmd = CS.get_class(name)(op, **CS.build_kwargs(name, CS.baseline(name), ata_blocksize=512 if name in S.ATA_LBA_BYTES else None))
        setattr(cmd, attr, v)
    except Exception:   # noqa: BLE001 - refusing the assignment is fine
        pass
    where = "after %s(%s.%s).%s = %r" % (name, st, key, attr, v)
    for s_ in SETS:
        for k in sets[s_].keys:
            want = {T.t10_value(s_, k)} - {None} or t10_any(k)
            if not want:
                continue
            o = getattr(sets[s_], k)
            AFTER_USE_WALKS[0] += 1
            if getattr(o, "value", None) not in want:
                return [("after_use/table_value/%s.%s" % (s_, k), "%s: %s.%s is now %r, T10 assigns %s"
                         % (where, s_, k, getattr(o, "value", None), sorted("%#04x" % x for x in want)))]
            for sakey in o.serviceaction.keys:
                wsa = T.SA_ALL.get(sakey)
                if wsa is not None and getattr(o.serviceaction, sakey) not in wsa:
                    return [("after_use/serviceaction/%s.%s.%s" % (s_, k, sakey), "%s: service action is now %r" % (where, getattr(o.serviceaction, sakey)))]
    return []


def _snapshot():
    E, sets = _sets()
    snap = {}
    for s_ in SETS:
        for k in sets[s_].keys:
            o = getattr(sets[s_], k)
            snap[(s_, k)] = (getattr(o, "value", None), tuple((sk, getattr(o.serviceaction, sk)) for sk in o.serviceaction.keys))
    return snap


def check_sa_edit(setname, key, edit):
    """the documented way to teach one entry a device quirk (Enum.remove / Enum.add on ITS service-action table) concerns that entry
    only: every other entry of every set keeps its names and T10 values; afterwards the edit is undone"""
    E, sets = _sets()
    op = getattr(sets[setname], key)
    sa = op.serviceaction
    before = _snapshot()
    names = list(sa.keys)
    undo = []
    try:
        if edit == "private":
            # the caller builds an entry of its own FROM the shipped entry's table object (OpCode documents "serviceaction: a Enum")
            # and edits only its own entry: if that construction is accepted at all, the shipped entry stays as it is
            from pyscsi.pyscsi.scsi_opcode import OpCode
            if not names:
                return []
            try:
                mine = OpCode("QUIRK_" + key, op.value, sa)
            except Exception:   # noqa: BLE001 - refusing an Enum here is fine
                return []
            n0, v0 = names[0], getattr(sa, names[0])
            try:
                mine.serviceaction.remove(n0)
                mine.serviceaction.add(n0, (v0 ^ 0x01) & 0x1F)
                mine.serviceaction.add("VENDOR_SPECIFIC_VERIF", 0x1E)
            except Exception:   # noqa: BLE001
                pass
            after = _snapshot()
            out = []
            for k2, v2 in before.items():
                if after.get(k2) != v2:
                    out.append(("sa_edit/shipped_entry_changed/private", "an entry of the caller's own built from %s.%s.serviceaction and edited changed the shipped %s.%s: service actions %r, before %r"
                                % (setname, key, k2[0], k2[1], dict(after.get(k2, (None, ()))[1]), dict(v2[1]))))
                    break
            if out:
                # put the shipped table back (the object is shared)
                try:
                    sa.remove("VENDOR_SPECIFIC_VERIF")
                    sa.remove(n0)
                    sa.add(n0, v0)
                except Exception:   # noqa: BLE001
                    pass
            return out
        if edit == "vendor":
            sa.add("VENDOR_SPECIFIC_VERIF", 0x1F)
            undo.append(lambda: sa.remove("VENDOR_SPECIFIC_VERIF"))
        elif edit == "renumber" and names:
            n0, v0 = names[0], getattr(sa, names[0])
            sa.remove(n0)
            sa.add(n0, (v0 ^ 0x10) & 0x1F)
            undo.append(lambda: (sa.remove(n0), sa.add(n0, v0)))
        elif edit == "remove" and names:
            n0, v0 = names[-1], getattr(sa, names[-1])
            sa.remove(n0)
            undo.append(lambda: sa.add(n0, v0))
        else:
            return []
    except Exception as e:   # noqa: BLE001
        return [("sa_edit/raises", "%s.%s.serviceaction %s raised %s: %s" % (setname, key, edit, type(e).__name__, e))]
    after = _snapshot()
    out = []
    for k2, v2 in before.items():
        if k2 != (setname, key) and after.get(k2) != v2:
            out.append(("sa_edit/other_entry_changed/%s" % edit, "after %s.%s.serviceaction was edited (%s), %s.%s changed: service actions %r, before %r"
                        % (setname, key, edit, k2[0], k2[1], dict(after.get(k2, (None, ()))[1]), dict(v2[1]))))
            break
    for u in undo:
        try:
            u()
        except Exception:   # noqa: BLE001
            pass
    if {k: (v[0], sorted(v[1])) for k, v in _snapshot().items()} != {k: (v[0], sorted(v[1])) for k, v in before.items()}:
        out.append(("sa_edit/not_restorable", "after undoing the edit of %s.%s.serviceaction the tables differ from before" % (setname, key)))
    return out


GROUP_CODES = (0x00, 0x28, 0xA8, 0x88, 0x5A, 0x9E, 0xA3, 0x12)
OUT_OF_RANGE_CODES = (0x100, 0x128, 0x1A8, 0x10088, 0x1FF, -1, -216, 1 << 32)


def check_out_of_range(name, code, how):
    """an operation code that is no byte (an int packed with a service action, a negative number): marshall_cdb / build_cdb refuse it -
    they never size a CDB for the code modulo 256"""
    from vf import cmdspace as CS
    from vf.props import c02
    cls, inst, op = c02.fresh_instance(name)
    vals = c02.base_of(name, "zeros")
    vals["opcode"] = code
    try:
        cdb = bytes(cls.marshall_cdb(dict(vals)) if how == "marshall_cdb" else inst.build_cdb(**vals))
    except Exception:   # noqa: BLE001 - refused
        return []
    return [("out_of_range_opcode/%s" % how, "%s.%s with operation code %#x: a CDB came out (%s) instead of a refusal" % (name, how, code, cdb.hex()))]


def check_mismatch(name, code, how):
    """a command class combined with an operation code of ANOTHER length group (constructor with a re-made OpCode, or marshall_cdb
    with all fields set): either it is refused, or the CDB that comes out has the length the group of its first byte prescribes -
    never a CDB whose length contradicts its own operation code"""
    from pyscsi.pyscsi.scsi_opcode import OpCode
    from vf import cmdspace as CS
    from vf.spec import cdb as S
    cls = CS.get_class(name)
    st, key = next((st, key) for st, key in S.CLASSES[name]["tables"] if CS.get_opcode(st, key) is not None)
    op = CS.get_opcode(st, key)
    try:
        if how == "constructor":
            op2 = OpCode(op.name, code, {k: getattr(op.serviceaction, k) for k in op.serviceaction.keys})
            kw = CS.build_kwargs(name, CS.baseline(name), ata_blocksize=512 if name in S.ATA_LBA_BYTES else None)
            cdb = bytes(cls(op2, **kw).cdb)
        else:
            from vf.props import c02
            vals = c02.base_of(name, "ones")
            vals["opcode"] = code
            cdb = bytes(cls.marshall_cdb(vals))
    except Exception:   # noqa: BLE001 - refusing the combination is fine
        return []
    want = T.cdb_length(cdb[0]) if cdb else None
    if not cdb or (want is not None and len(cdb) != want):
        return [("mismatch/%s" % how, "%s with operation code %#04x (%s): a CDB of %d bytes came out (%s), the group of its first byte prescribes %s"
                 % (name, code, how, len(cdb), cdb.hex(), want))]
    return []


def check_clone(setname, key):
    """copies of a table entry, and of a command built from it, carry the T10 value of the name they were taken under"""
    import copy
    from pyscsi.pyscsi.scsi_command import SCSICommand
    E, sets = _sets()
    op = getattr(sets[setname], key)
    want = {T.t10_value(setname, key)} - {None} or t10_any(key)
    if not want:
        return []
    out = []
    clones = [("copy.copy of the entry", lambda: copy.copy(op)), ("copy.deepcopy of the entry", lambda: copy.deepcopy(op))]
    if T.cdb_length(op.value) is not None:
        clones += [("the opcode of a deep-copied command", lambda: copy.deepcopy(SCSICommand(op, 0, 0)).opcode),
                   ("the opcode of a copied command", lambda: copy.copy(SCSICommand(op, 0, 0)).opcode)]
    for label, fn in clones:
        try:
            v = fn().value
        except Exception as e:   # noqa: BLE001
            out.append(("clone/raises/%s.%s" % (setname, key), "%s.%s: %s raised %s: %s" % (setname, key, label, type(e).__name__, e)))
            continue
        if v not in want:
            out.append(("clone/value/%s.%s" % (setname, key), "%s.%s: %s has value %#04x, T10 assigns %s" % (setname, key, label, v, sorted("%#04x" % x for x in want))))
    if getattr(sets[setname], key).value not in want:
        out.append(("clone/table_changed/%s.%s" % (setname, key), "%s.%s changed by copying it" % (setname, key)))
    return out


def run_case(case):
    kind = case[0]
    if kind == "clone":
        return check_clone(case[1], case[2])
    if kind == "after_use":
        return check_after_use(*case[1:])
    if kind == "sa_edit":
        return check_sa_edit(*case[1:])
    if kind == "mismatch":
        return check_mismatch(*case[1:])
    if kind == "out_of_range":
        return check_out_of_range(*case[1:])
    if kind == "op":
        return check_entry(case[1], case[2])[0]
    if kind == "sa":
        return check_sa(case[1], case[2], case[3])[0]
    if kind == "init":
        return check_init(*case[1:])
    if kind == "same":
        E, sets = _sets()
        a, b, key = case[1:]
        va, vb = getattr(sets[a], key).value, getattr(sets[b], key).value
        return [("samename/%s" % key, "%s is %#04x in %s and %#04x in %s" % (key, va, a, vb, b))] if va != vb else []
    if kind == "lookup":
        return check_lookup(case[1], case[2])
    if kind == "status":
        E, sets = _sets()
        v = getattr(E.SCSI_STATUS, case[1])
        want = T.STATUS.get(case[1])
        if want is not None and v != want:
            return [("status/%s" % case[1], "SCSI_STATUS.%s = %#x, SAM assigns %#x" % (case[1], v, want))]
        return []
    raise ValueError(kind)


replay = run_case


def run_partition(part, tier, seed):
    acc = Acc(seed)
    E, sets = _sets()

    def do(case, nontrivial=True):
        acc.case(case, nontrivial=nontrivial, key=repr(case))
        try:
            v = run_case(case)
        except Exception as e:
            v = [("error/%s" % case[0], "%s raised %r" % (case, e))]
        for key, what in v:
            acc.violation(key, what, case)
        acc.outcome((repr(case), tuple(k for k, _ in v)))

    if part[0] == "lookups":
        names = sorted({k for s in SETS for k in sets[s].keys} | {"READ_CAPACITY_16", "SYNCHRONIZE_CACHE_12", "WRITE_SAME_32", "READ_6", "INQUIRY_6"})
        for s in SETS:
            for nm in names:
                do(["lookup", s, nm], nontrivial=nm not in sets[s].keys)
        # a refused re-definition of a listed name (Enum.add on an existing key) must leave the T10 value in place
        from pyscsi.pyscsi.scsi_opcode import OpCode
        for s_ in SETS:
            for key in list(sets[s_].keys)[:4] + list(sets[s_].keys)[-2:]:
                before = getattr(sets[s_], key).value
                try:
                    sets[s_].add(key, OpCode(key, (before ^ 0x50) & 0xFF, {}))
                    refused = False
                except KeyError:
                    refused = True
                case = ["readd", s_, key]
                acc.case(case, nontrivial=True, key=tuple(case))
                after = getattr(sets[s_], key).value
                if not refused or after != before:
                    acc.violation("readd/%s" % ("accepted" if not refused else "value_changed"),
                                  "%s.add(%r, other code) %s; %s.%s is now %#04x (T10 %#04x)" % (s_, key, "was refused" if refused else "was ACCEPTED", s_, key, after, before), case)
        for key in ("GOOD", "BUSY", "CHECK_CONDITION"):
            before = getattr(E.SCSI_STATUS, key)
            try:
                E.SCSI_STATUS.add(key, before ^ 0x80)
            except KeyError:
                pass
            acc.evaluations += 1
            if getattr(E.SCSI_STATUS, key) != before:
                acc.violation("readd/status_value_changed", "SCSI_STATUS.%s changed from %#x to %#x by a re-definition attempt" % (key, before, getattr(E.SCSI_STATUS, key)), ["status", key])
        # afterwards the tables are walked again: every value must still be the T10 one
        for s in SETS:
            for key in sets[s].keys:
                if T.t10_value(s, key) is not None or t10_any(key):
                    v = getattr(sets[s], key).value
                    want = {T.t10_value(s, key)} - {None} or t10_any(key)
                    acc.evaluations += 1
                    if v not in want:
                        acc.violation("lookup/table_value_after_use/%s.%s" % (s, key), "after the lookups %s.%s = %#04x, T10 assigns %s"
                                      % (s, key, v, sorted("%#04x" % x for x in want)), ["op", s, key])
        return acc
    if part[0] == "mismatch":
        from vf.spec import cdb as S
        for name in sorted(S.CLASSES):
            for code in GROUP_CODES:
                for how in ("constructor", "marshall_cdb"):
                    do(["mismatch", name, code, how])
            for code in OUT_OF_RANGE_CODES:
                for how in ("marshall_cdb", "build_cdb"):
                    do(["out_of_range", name, code, how])
        return acc
    if part[0] == "sa_edit":
        for s_ in SETS:
            for key in sets[s_].keys:
                for edit in ("vendor", "renumber", "remove", "private"):
                    do(["sa_edit", s_, key, edit])
                    if any(k.startswith("sa_edit/not_restorable") for k in acc.viol):
                        return acc
        return acc
    if part[0] == "after_use":
        from vf import cmdspace as CS
        from vf.spec import cdb as S
        for name, c in sorted(S.CLASSES.items()):
            for st, key in c["tables"]:
                if CS.get_opcode(st, key) is None:
                    continue
                for i in range(len(AFTER_USE)):
                    case = ["after_use", name, st, key, i]
                    acc.case(case, nontrivial=True, key=repr(case))
                    v = run_case(case)
                    for kk, w in v:
                        acc.violation(kk, w, case)
                    acc.outcome((repr(case), not v))
                    if v:
                        return acc          # the tables are damaged: everything after this would only repeat it
        acc.evaluations += AFTER_USE_WALKS[0]
        return acc
    if part[0] == "init_cdb":
        for v in range(256):
            do(["init", v])
        # every name a shipped table gives to an OpCode object (dictionary key and .name text), and names of the variable-length
        # commands of the standards, x all 256 values, with the entry's own service-action table
        names = {}
        for s in SETS:
            for key in sets[s].keys:
                op = getattr(sets[s], key)
                sa = {k: getattr(op.serviceaction, k) for k in op.serviceaction.keys}
                names.setdefault(key, sa)
                names.setdefault(str(op.name), sa)
        for extra in ("READ_32", "WRITE_32", "VERIFY_32", "WRITE_SAME_32", "ORWRITE_32", "WRITE_AND_VERIFY_32", "VARIABLE_LENGTH_CDB", "XDWRITEREAD_32",
                      "EXTENDED_CDB", "VENDOR_SPECIFIC", "", "7F", "X_16", "X_12", "X_10", "X_6"):
            names.setdefault(extra, {})
        for nm in sorted(names):
            for v in range(256):
                do(["init", v, nm, names[nm]], nontrivial=T.cdb_length(v) is None)
        acc.extra["opcode_names_tried"] = len(names)
        # an OpCode object re-pointed from one code to another (one representative per group, and a refused one)
        for first in (0x00, 0x28, 0x5E, 0x7F, 0x88, 0xA8, 0xC1, 0xFF):
            for v in range(256):
                do(["init", v, "X", {}, first], nontrivial=True)
        return acc
    unasserted = []
    n_named = 0
    for s in sets:
        for key in sets[s].keys:
            n_named += 1
            known = T.t10_value(s, key) is not None
            if not known:
                unasserted.append("%s.%s" % (s, key))
            do(["op", s, key], nontrivial=known)
            do(["clone", s, key], nontrivial=known)
            op = getattr(sets[s], key)
            for sakey in op.serviceaction.keys:
                ksa = sakey in T.SA_ALL
                if not ksa:
                    unasserted.append("%s.%s/%s" % (s, key, sakey))
                do(["sa", s, key, sakey], nontrivial=ksa)
    allsets = list(sets)
    for i, a in enumerate(allsets):
        for b in allsets[i + 1:]:
            for key in sets[a].keys:
                if key in sets[b].keys:
                    do(["same", a, b, key])
    for key in E.SCSI_STATUS.keys:
        if key in T.STATUS:
            do(["status", key])
        else:
            unasserted.append("SCSI_STATUS." + key)
    # the standard statuses must all be present
    for key in ("GOOD", "CHECK_CONDITION", "BUSY", "RESERVATION_CONFLICT", "TASK_SET_FULL", "ACA_ACTIVE", "TASK_ABORTED"):
        if key not in E.SCSI_STATUS.keys:
            acc.violation("status/missing/" + key, "SCSI_STATUS lacks %s" % key, ["status", key])
    acc.extra["named_entries"] = n_named
    acc.extra["entries_without_oracle_value"] = unasserted
    return acc
