"""C03 - data buffers match the transfer the CDB announces."""
import itertools

from vf import cmdspace as CS
from vf import harness
from vf.runner import Acc
from vf.sim import install, registry
from vf.spec import cdb as S

ID = "C03"
OPT_QUICK_ALL = True      # every partition also in a child interpreter started with -O
LEVEL = "exploration"
TECHNIQUE = "deviation-bounded exhaustive enumeration of constructor arguments (those of the released signatures, plus any parameter the class has gained since, over 6 values) x block sizes x ATA transfer rules; buffer lengths recomputed from the CDB by the independent spec decoder and each command handed to both stand-in transports"
RULE = ("42 classes x offering tables x argument tuples with at most k deviations (k=1 quick, 2 thorough) x block sizes {1,512,520,4096} for "
        "block commands (products above 2^22 bytes skipped) ; ATA PASS-THROUGH 12/16: full product t_length(4) x byte_block x t_type x t_dir x "
        "data given/omitted x blocksize {0,512,4096} x extra_tl {None,3} x count/features {0,1,2,max8,(max16)}, and per class one construction with an allocator that fails above 4 KiB, and one with the largest request the CDB field can carry and an allocator that fails above 2 MiB (refused with MemoryError, or buffers as the CDB announces); block sizes that are no plain positive int (numeric text, float, negative, list, None, integer-like, bool) x tl 1..3: refused, or buffers of exactly tl x that many bytes; write data as mmap (fresh / position at the end / in the middle) and array('B'), each used for two commands in a row; PROTOCOL 0..15 x t_length x byte_block x t_type x t_dir x data given/omitted x extra_tl ; MODE SELECT / PR OUT / EXTENDED COPY "
        "with parameter dictionaries of several sizes. Every constructed command is executed on an SG_IO and an iSCSI device (stand-ins), which take "
        "len() of both buffers; the iSCSI task direction/length is compared with the same numbers; afterwards the result is decoded (unmarshall) and both buffers must still be the same objects of the same length; 12 data-in facade methods on both transports answered with a well-formed response and 8 truncated / garbage ones (a length field announcing more than was transferred): every command reaching the target and the command handed back satisfy the same relation; two facades with block sizes 512 / 4096 alive at once (3 creation orders), READ/WRITE(10,12,16) on each in turn. Non-trivial = a deviation or a non-default "
        "block size; distinct = distinct (class, table, tuple, blocksize).")
ASSUMPTIONS = [
    "expected lengths are computed from the CDB bytes with vf/spec/cdb.py: ALLOCATION LENGTH, TRANSFER LENGTH x block size, PARAMETER LIST LENGTH, SAT transfer rules (T_LENGTH selects FEATURES/COUNT/TPSIU, BYT_BLOK/T_TYPE select 1/512/sector size, T_DIR the direction)",
    "READ CAPACITY(10) has no length in its CDB: 8 bytes (the size of its parameter data) are expected for the default; READ CD has none either: at least TL x the largest sector the selection bits can return, and 0 for TL=0",
    "a byte buffer = bytes or bytearray (what the SG_IO binding's buffer protocol accepts)",
]
MAXBYTES = 1 << 22
BLOCK = {"Read10", "Read12", "Read16", "Write10", "Write12", "Write16", "WriteSame10", "WriteSame16"}
PARAM = {"ModeSelect6", "ModeSelect10", "PersistentReserveOut", "ExtendedCopy4", "ExtendedCopy5"}


def bounds(tier):
    return {"k": 1 if tier == "quick" else 2}


def partitions(tier):
    parts = []
    for name, c in S.CLASSES.items():
        if name in S.ATA_LBA_BYTES:
            for tl in range(4):
                parts.append([name, c["tables"][0][0], c["tables"][0][1], tl])
            continue
        for st, key in c["tables"]:
            parts.append([name, st, key, None])
    parts += [["facade", tr, m] for tr in ("sgio", "iscsi") for m in FACADE_IN]
    parts += [["two", tr] for tr in ("sgio", "iscsi")]
    return parts


def readcd_sector(est, mcsb, c2ei, scsb):
    main = 0
    if mcsb & 0x10:
        main += 12
    if mcsb & 0x04:
        main += 4
    if mcsb & 0x08:
        main += 8
    if mcsb & 0x02:
        main += {1: 2352, 2: 2048, 3: 2336, 4: 2048, 5: 2324}.get(est, 2352)
    if mcsb & 0x01:
        main += {2: 288, 4: 280, 5: 4}.get(est, 288 if est == 0 else 0)
    main = min(main, 2352)
    return main + {1: 294, 2: 296}.get(c2ei, 0) + {1: 96, 2: 16, 4: 96}.get(scsb, 0)


def judge(name, cmd, kw, where):
    """expected buffer lengths from the CDB; returns (violations, expected_in, expected_out)"""
    out = []
    c = S.CLASSES[name]
    cdb = bytes(cmd.cdb)
    d = S.decode(name, cdb)
    di, do = cmd.datain, cmd.dataout
    for nm, b in (("datain", di), ("dataout", do)):
        if not isinstance(b, (bytes, bytearray)):
            out.append(("buffer_type/%s/%s" % (name, nm), "%s: %s is %s, not a byte buffer" % (where, nm, type(b).__name__)))
    if out:
        return out, None, None
    exp_in = exp_out = 0
    exact_in = True
    if "alloc_len" in d:
        exp_in = d["alloc_len"]
    elif name == "ReadCapacity10":
        exp_in = 8
    elif name in ("Read10", "Read12", "Read16"):
        exp_in = d["tl"] * kw["blocksize"]
    elif name == "ReadCd":
        exp_in = d["tl"] * readcd_sector(d["est"], d["mcsb"], d["c2ei"], d["scsb"])
        exact_in = d["tl"] == 0
    elif name in ("Write10", "Write12", "Write16"):
        exp_out = d["tl"] * kw["blocksize"]
    elif name == "WriteSame10":
        exp_out = kw["blocksize"]
    elif name == "WriteSame16":
        exp_out = 0 if d["ndob"] else kw["blocksize"]
    elif "parameter_list_length" in d:
        exp_out = d["parameter_list_length"]
    elif name in S.ATA_LBA_BYTES:
        tlen = d["t_length"]
        n = 0 if tlen == 0 else d["fetures"] if tlen == 1 else d["count"] if tlen == 2 else (kw.get("extra_tl") or 0)
        unit = 1 if not d["byte_block"] else (512 if not d["t_type"] else kw.get("blocksize", 0))
        total = n * unit if tlen else 0
        if d["t_dir"]:
            exp_in = total
        else:
            exp_out = total
    if (exact_in and len(di) != exp_in) or (not exact_in and len(di) < exp_in):
        out.append(("datain_len/%s" % name, "%s: cdb %s announces %d bytes of data-in, buffer has %d" % (where, cdb.hex(), exp_in, len(di))))
    if len(do) != exp_out:
        out.append(("dataout_len/%s" % name, "%s: cdb %s announces %d bytes of data-out, buffer has %d" % (where, cdb.hex(), exp_out, len(do))))
    if "data" in kw and isinstance(kw["data"], (bytes, bytearray)) and len(kw["data"]) and not (name == "WriteSame16" and d.get("ndob")):
        which = do if (name not in S.ATA_LBA_BYTES or not d["t_dir"]) else di
        if which is not kw["data"]:
            out.append(("caller_buffer/%s" % name, "%s: the caller's data buffer is not the one handed to the transport" % where))
    return out, len(di), len(do)


def transports(cmd, where, name):
    """hand the command to both stand-ins"""
    out = []
    for tr in ("sgio", "iscsi"):
        rig = RIGS[tr]
        n0 = len(rig.target.log)
        del registry.iscsi_tasks[:]
        try:
            rig.dev.execute(cmd)
        except Exception as e:   # noqa: BLE001
            out.append(("transport/%s/%s" % (tr, name), "%s: %s transport raised %s: %s" % (where, tr, type(e).__name__, e)))
            continue
        if len(rig.target.log) - n0 != 1:
            out.append(("transport/%s/not_sent" % tr, "%s: not sent" % where))
        if tr == "iscsi":
            t = registry.iscsi_tasks[-1]
            want = (2, len(cmd.dataout)) if len(cmd.dataout) else (1, len(cmd.datain)) if len(cmd.datain) else (0, 0)
            if (t["dir"], t["xferlen"]) != want:
                out.append(("iscsi_task/%s" % name, "%s: iSCSI task dir/xferlen %r, buffers say %r" % (where, (t["dir"], t["xferlen"]), want)))
    return out


RIGS = {}


def ensure_rigs():
    install.ensure()
    if not RIGS:
        for tr in ("sgio", "iscsi"):
            r = harness.Rig(tr, 0x00)
            r.target.responder = lambda cdb: None          # answer GOOD to everything, write nothing
            RIGS[tr] = r


PR_KW = [
    {},
    {"reservation_key": 1, "service_action_reservation_key": 2},
    {"reservation_key": 1, "spec_i_pt": 1, "transport_ids": [{"protocol_id": 5, "iscsi_name": "iqn.a"}, {"protocol_id": 6, "sas_address": b"\x01" * 8}]},
]
XC_KW = {
    4: [{}, {"inline_data": bytearray(b"12345")},
        {"target_descriptor_list": [{"descriptor_type_code": 0xE4, "peripheral_device_type": 0, "target_descriptor_parameters": {
            "code_set": 1, "association": 0, "designator_type": 3, "designator_length": 8,
            "designator": {"naa": 5, "ieee_company_id": 1, "vendor_specific_identifier": 2}}}],
         "segment_descriptor_list": [{"descriptor_type_code": 2, "source_target_descriptor_id": 0, "destination_target_descriptor_id": 0,
                                      "block_device_number_of_blocks": 1, "source_block_device_logical_block_address": 0,
                                      "destination_block_device_logical_block_address": 9}]}],
    5: [{}, {"inline_data": bytearray(b"12345")},
        {"cscd_descriptor_list": [{"descriptor_type_code": 0xE4, "peripheral_device_type": 0, "cscd_descriptor_parameters": {
            "code_set": 1, "association": 0, "designator_type": 3, "designator_length": 8,
            "designator": {"naa": 5, "ieee_company_id": 1, "vendor_specific_identifier": 2}}}],
         "segment_descriptor_list": [{"descriptor_type_code": 2, "source_cscd_descriptor_id": 0, "destination_cscd_descriptor_id": 0,
                                      "block_device_number_of_blocks": 1, "source_block_device_logical_block_address": 0,
                                      "destination_block_device_logical_block_address": 9}]}],
}


def build(name, st, key, point, bs, variant):
    """returns (cmd or exception, kwargs used)"""
    import copy
    cls = CS.get_class(name)
    op = CS.get_opcode(st, key)
    kw = CS.build_kwargs(name, point, blocksize=bs or 1)
    if name in BLOCK:
        kw["blocksize"] = bs
        if "data" in kw:
            n = bs * point.get("tl", 0) if name.startswith("Write1") else bs
            kw["data"] = bytearray(b"\x5a" * n)
    if name == "PersistentReserveOut":
        kw.update(copy.deepcopy(PR_KW[variant]))
    if name in ("ExtendedCopy4", "ExtendedCopy5"):
        kw.update(copy.deepcopy(XC_KW[int(name[-1])][variant]))
    try:
        return cls(op, **kw), kw
    except Exception as e:   # noqa: BLE001
        return e, kw


def run_payload(name, st, key, kind, tl):
    """write data handed over in a container that is a byte buffer and more (an mmap is also a file object with a position; an
    array.array has items wider than a byte): the data-out buffer still holds exactly the bytes the CDB announces"""
    import array
    import mmap
    ensure_rigs()
    bs = 512
    n = bs * tl if name.startswith("Write1") else bs
    raw = bytes((i * 7 + 3) & 0xFF for i in range(n))
    if kind.startswith("mmap"):
        data = mmap.mmap(-1, n)
        if kind == "mmapend":
            data.write(raw)
        elif kind == "mmapmid":
            data[:] = raw
            data.seek(16)
        else:
            data[:] = raw
    elif kind == "arrayB":
        data = array.array("B", raw)
    else:
        data = bytearray(raw)
    cls = CS.get_class(name)
    op = CS.get_opcode(st, key)
    kw = CS.build_kwargs(name, dict(CS.baseline(name), **({"tl": tl} if name.startswith("Write1") else {})), blocksize=bs)
    kw["blocksize"] = bs
    kw["data"] = data
    where = "%s(tl=%d, blocksize=512, data=<%s of %d bytes>) via %s.%s" % (name, tl, kind, n, st, key)
    out = []
    for attempt in (1, 2):          # the same container used for two commands in a row
        try:
            cmd = cls(op, **kw)
        except Exception as e:   # noqa: BLE001
            return out + [("payload/construct/%s" % name, "%s (use #%d) raised %s: %s" % (where, attempt, type(e).__name__, e))]
        try:
            got = bytes(cmd.dataout)
        except Exception as e:   # noqa: BLE001
            return out + [("payload/buffer_type/%s" % name, "%s (use #%d): data-out is %s: %s" % (where, attempt, type(cmd.dataout).__name__, e))]
        if len(cmd.dataout) != n or got != raw:
            out.append(("payload/dataout/%s" % name, "%s (use #%d): the CDB announces %d bytes, data-out holds %d%s"
                        % (where, attempt, n, len(cmd.dataout), "" if got == raw[:len(got)] else " (and other content)")))
            return out
        out += [("payload/" + k, w) for k, w in transports(cmd, where, name)]
    return out


ODD_BLOCKSIZES = {"text": "512", "float": 512.0, "negative": -512, "list": [512], "none": None, "numlike": "NUMLIKE", "bool": True}


def run_odd_blocksize(name, st, key, bsname, tl):
    """a block size that is no plain positive int (numeric text from a command line, a float, None, ...): the request is refused, or
    the command that comes out has buffers of exactly tl x that many bytes - never something else (e.g. '512' * 2 read as 512512)"""
    ensure_rigs()
    bs = ODD_BLOCKSIZES[bsname]
    if bs == "NUMLIKE":
        from vf.props.c05 import NumLike
        bs = NumLike(512)
    cls = CS.get_class(name)
    op = CS.get_opcode(st, key)
    point = dict(CS.baseline(name), tl=tl) if name.startswith(("Read1", "Write1")) else dict(CS.baseline(name))
    kw = CS.build_kwargs(name, point, blocksize=512)
    kw["blocksize"] = bs
    where = "%s(tl=%d, blocksize=%r) via %s.%s" % (name, tl, ODD_BLOCKSIZES[bsname], st, key)
    try:
        cmd = cls(op, **kw)
    except Exception:   # noqa: BLE001 - refused
        return []
    try:
        unit = int(bs)
    except Exception:   # noqa: BLE001
        unit = None
    d = S.decode(name, bytes(cmd.cdb))
    if name.startswith("Read1"):
        want_in, want_out = (d["tl"] * unit if unit is not None else None), 0
    elif name.startswith("Write1"):
        want_in, want_out = 0, len(kw.get("data", b""))
    else:
        return []
    out = []
    if want_in is None or unit <= 0 or len(cmd.datain) != want_in or len(cmd.dataout) != want_out:
        out.append(("odd_blocksize/%s" % name, "%s: accepted; the CDB announces %d block(s), data-in holds %d bytes, data-out %d"
                    % (where, d["tl"], len(cmd.datain), len(cmd.dataout))))
    return out


def run_alloc_failure(name, st, key, threshold=4096):
    """the environment answers 'no memory' when the command's buffers are allocated (the allocator of the module that builds them is
    replaced by one that fails above 4 KiB): the construction fails with that MemoryError - or, if a command comes out all the same, its
    buffers still are exactly what the CDB announces"""
    import builtins
    import pyscsi.pyscsi.scsi_command as cmdmod
    ensure_rigs()
    c = S.CLASSES[name]
    point = dict(CS.baseline(name))
    big = False
    for arg, field in c["args"].items():
        if field in S.ALLOCATING:
            if threshold == 4096:
                point[arg] = 0xFFF0 if name not in BLOCK else 64
            else:
                from vf.props import c02
                width = next((w for (f, _, _, w) in c02.lib_fields(name) if f == field), 16)
                point[arg] = min((1 << width) - 1, (1 << 31) - 1) if name not in BLOCK else min((1 << width) - 1, 0x4000)
            big = True
    if not big:
        return []
    bs = 512 if name in BLOCK else None
    cls = CS.get_class(name)
    op = CS.get_opcode(st, key)
    kw = CS.build_kwargs(name, point, blocksize=bs or 1)
    if name in BLOCK:
        kw["blocksize"] = bs
        kw.pop("data", None)
        if name.startswith(("Write", "WriteSame")):
            return []

    def failing(*a, **k):
        if a and isinstance(a[0], int) and not isinstance(a[0], bool) and a[0] > threshold:
            raise MemoryError()
        return builtins.bytearray(*a, **k)
    where = "%s(%r) via %s.%s with an allocator that fails above %d bytes" % (name, point, st, key, threshold)
    cmdmod.bytearray = failing
    try:
        try:
            cmd = cls(op, **kw)
        except MemoryError:
            return []
        except Exception as e:   # noqa: BLE001
            return [("alloc_failure/other_error/%s" % name, "%s: raised %s: %s instead of the MemoryError" % (where, type(e).__name__, e))]
    finally:
        del cmdmod.bytearray
    v, li, lo = judge(name, cmd, kw, where)
    return [("alloc_failure/" + k, w) for k, w in v]


PAYLOAD_KINDS = ("mmap", "mmapend", "mmapmid", "arrayB")
NEW_PARAM_VALUES = (0, 1, 12, 255, 512, 4096)


def new_parameters(name):
    """constructor parameters the class has NOW that the pinned release did not have (an API extension): they are exercised as well"""
    import inspect
    from vf.spec import signatures as SIG
    cls = CS.get_class(name)
    cur = [p for p, v in inspect.signature(cls.__init__).parameters.items()
           if p not in ("self", "opcode") and v.kind not in (v.VAR_KEYWORD, v.VAR_POSITIONAL)]
    rel = {a for a, _ in SIG.COMMANDS.get(name, [])}
    return [p for p in cur if p not in rel]


def run_new_param(name, st, key, param, value):
    """baseline arguments plus one parameter that did not exist in the release: whatever it means, the command it yields satisfies the
    buffer / CDB relation (a refusal is fine)"""
    ensure_rigs()
    point = CS.baseline(name)
    bs = 512 if name in BLOCK else None
    cls = CS.get_class(name)
    op = CS.get_opcode(st, key)
    kw = CS.build_kwargs(name, point, blocksize=bs or 1)
    if name in BLOCK:
        kw["blocksize"] = bs
        if "data" in kw:
            kw["data"] = bytearray(b"\x5a" * (bs * point.get("tl", 0) if name.startswith("Write1") else bs))
    kw[param] = value
    where = "%s(baseline, %s=%r) via %s.%s [%s is not a parameter of the released constructor]" % (name, param, value, st, key, param)
    try:
        cmd = cls(op, **kw)
    except Exception:   # noqa: BLE001
        return []
    v, li, lo = judge(name, cmd, {k: x for k, x in kw.items() if k != param}, where)
    if li is not None:
        v += transports(cmd, where, name)
    return [("new_parameter/" + k, w) for k, w in v]


def run_case(case, obs=None):
    if case[0] == "new_param":
        return run_new_param(*case[1:])
    if case[0] == "payload":
        return run_payload(*case[1:])
    if case[0] == "odd_blocksize":
        return run_odd_blocksize(*case[1:])
    if case[0] == "alloc_failure":
        return run_alloc_failure(*case[1:])
    ensure_rigs()
    name, st, key, point, bs, variant = case
    where = "%s(%r, blocksize=%r, variant=%r) via %s.%s" % (name, point, bs, variant, st, key)
    if name in S.ATA_LBA_BYTES:
        cls = CS.get_class(name)
        op = CS.get_opcode(st, key)
        kw = dict(point)
        give = kw.pop("_data", False)
        if give:
            tlen = kw["t_length"]
            n = 0 if tlen == 0 else kw["fetures"] if tlen == 1 else kw["count"] if tlen == 2 else (kw.get("extra_tl") or 0)
            unit = 1 if not kw["byte_block"] else (512 if not kw["t_type"] else kw.get("blocksize", 0))
            kw["data"] = bytearray(b"\x33" * (n * unit if tlen else 0))
        try:
            cmd = cls(op, **kw)
        except Exception as e:   # noqa: BLE001
            if type(e).__name__ == "MissingBlocksizeException" and kw["byte_block"] and kw["t_type"] and kw["t_length"] and not kw.get("blocksize"):
                return []
            return [("construct/%s" % name, "%s raised %s: %s" % (where, type(e).__name__, e))]
    else:
        cmd, kw = build(name, st, key, point, bs, variant)
        if isinstance(cmd, Exception):
            return [("construct/%s" % name, "%s raised %s: %s" % (where, type(cmd).__name__, cmd))]
    v, li, lo = judge(name, cmd, kw, where)
    if obs is not None:
        obs.append((li, lo))
    if li is not None:
        v += transports(cmd, where, name)
        # decoding the result must leave the buffers as they are: the command can be issued again (retry, poll) with the same CDB
        if hasattr(cmd, "unmarshall_datain"):
            before = (id(cmd.datain), len(cmd.datain), id(cmd.dataout), len(cmd.dataout))
            try:
                if name == "ReadCd":
                    cmd.unmarshall(**{k: v2 for k, v2 in point.items()})
                elif name == "Inquiry":
                    cmd.unmarshall(evpd=point.get("evpd", 0))
                else:
                    cmd.unmarshall()
            except Exception:   # noqa: BLE001 - zero-filled data need not decode
                pass
            after = (id(cmd.datain), len(cmd.datain), id(cmd.dataout), len(cmd.dataout))
            if after != before:
                v.append(("buffers_changed_by_decode/%s" % name, "%s: after unmarshall() the data-in buffer has %d bytes (was %d); the CDB still announces %d"
                          % (where, after[1], before[1], before[1])))
    return v


FACADE_IN = ["inquiry", "modesense6", "modesense10", "reportluns", "reporttargetportgroups", "reportpriority", "readelementstatus",
             "readdiscinformation", "persistentreservein", "getlbastatus", "readcapacity16", "readcapacity10"]
PRIN_CLASSES = ["PersistentReserveInReadKeys", "PersistentReserveInReadReservation", "PersistentReserveInReportCapabilities",
                "PersistentReserveInReadFullStatus"]


def run_facade(case, obs=None):
    """a facade call answered by a device that announces more data than was transferred (or garbage): every command that reaches
    the target, and the command handed back, must still satisfy 'data-in buffer == what the CDB announces'"""
    from vf import facade as F
    from vf.props import c13
    _, tr, method, st, extra, variant = case
    name = F.FACADE[method][0]
    rig = harness.Rig(tr, F.SET_TO_TYPE[st])
    out = []
    try:
        s = rig.facade(512)
        allkw = dict(F.FACADE[method][2])
        allkw.update(extra)
        resp = c13.response_for(method, allkw, variant)
        rig.target.responder = lambda cdb: resp
        n0 = len(rig.target.log)
        try:
            cmd = F.call(s, method, **extra)
        except Exception:   # noqa: BLE001 - refusing to decode garbage is fine here
            cmd = None
        cname = PRIN_CLASSES[allkw.get("service_action", 0)] if method == "persistentreservein" else name
        where = "%s(%r) over %s answered with response variant %d" % (method, extra, tr, variant)
        for i, rec in enumerate(rig.target.log[n0:]):
            if rec["cdb"][0] != S.CLASSES[cname]["op"]:
                continue
            d = S.decode(cname, rec["cdb"])
            want = d["alloc_len"] if "alloc_len" in d else 8 if cname == "ReadCapacity10" else None
            if want is not None and rec["datain_len"] != want:
                out.append(("facade/datain_len/%s" % method, "%s: command #%d reached the target with CDB %s (announcing %d bytes) and a %d byte data-in buffer"
                            % (where, i + 1, rec["cdb"].hex(), want, rec["datain_len"])))
        if cmd is not None:
            v, _, _ = judge(cname, cmd, {}, where + " (returned command)")
            out += [("facade/" + k, w) for k, w in v]
        if obs is not None:
            obs.append(len(rig.target.log) - n0)
    finally:
        rig.close()
    return out


def run_copied_facade(tr, order):
    """copy.copy of a live facade that has already moved blocks, the copy (or the original) then given another block size: each
    facade's READ / WRITE buffers follow ITS OWN block size"""
    import copy
    rig = harness.Rig(tr, 0x00)
    out = []
    try:
        rig.target.responder = lambda cdb: None
        a = rig.facade(512)
        a.read10(0, 1)
        a.write10(0, 1, bytearray(512))
        a.writesame16(0, 1, bytearray(512))
        b = copy.copy(a)
        if order == 0:
            b.blocksize = 4096
            pairs = ((a, 512), (b, 4096), (a, 512))
        else:
            a.blocksize = 4096
            pairs = ((b, 512), (a, 4096), (b, 512))
        for s, bs in pairs:
            for m in ("read10", "read12", "read16"):
                n = len(getattr(s, m)(0, 3).datain)
                if n != 3 * bs:
                    out.append(("copied_facade/%s" % m, "%s of 3 blocks through a facade whose block size is %d (a shallow copy of / copied from a facade with another block size) over %s: data-in of %d bytes" % (m, bs, tr, n)))
            if s.blocksize != bs:
                out.append(("copied_facade/blocksize", "facade block size reads %r, set %d" % (s.blocksize, bs)))
    finally:
        rig.close()
    return out


def run_subclass(tr):
    """a facade subclass that overrides the public `blocksize` accessor (a disk formatted with protection information: 512+8):
    the READ methods all size their buffers from the same source - one method going its own way gives a buffer that does not match"""
    from pyscsi.pyscsi.scsi import SCSI

    class ProtectedSCSI(SCSI):
        @property
        def blocksize(self):
            return self._blocksize + 8

        @blocksize.setter
        def blocksize(self, v):
            self._blocksize = v
    out = []
    rig = harness.Rig(tr, 0x00)
    try:
        s = ProtectedSCSI(rig.dev, 512)
        sizes = {}
        for m in ("read10", "read12", "read16"):
            for tl in (1, 3):
                try:
                    sizes[(m, tl)] = len(getattr(s, m)(0, tl).datain) // tl
                except Exception as e:   # noqa: BLE001
                    sizes[(m, tl)] = "raised %s" % type(e).__name__
        if len(set(sizes.values())) != 1:
            out.append(("subclass/blocksize_source", "a facade subclass overriding `blocksize` (512+8) over %s: bytes per block of the data-in buffers %r - the READ methods do not agree" % (tr, sizes)))
    finally:
        rig.close()
    return out


def run_two(case, obs=None):
    """two facades with different block sizes alive at once: each builds its READ / WRITE commands from its own"""
    _, tr, m, order = case
    if order == 3:
        return run_subclass(tr)
    out = []
    ra, rb = harness.Rig(tr, 0x00), harness.Rig(tr, 0x00, blocksize=4096)
    try:
        if order == 0:
            sa, sb = ra.facade(512), rb.facade(4096)
        elif order == 1:
            sb, sa = rb.facade(4096), ra.facade(512)
        else:
            sa, sb = ra.facade(512), rb.facade(512)
            sb.blocksize = 4096
        name = {"read10": "Read10", "read12": "Read12", "read16": "Read16", "write10": "Write10", "write12": "Write12", "write16": "Write16"}[m]
        for who, bs, label in ((sa, 512, "A"), (sb, 4096, "B"), (sa, 512, "A again")):
            try:
                cmd = getattr(who, m)(3, 2) if m.startswith("read") else getattr(who, m)(3, 2, bytearray(2 * bs))
            except Exception as e:   # noqa: BLE001
                out.append(("two/raises/%s" % m, "%s on facade %s (block size %d) raised %s: %s" % (m, label, bs, type(e).__name__, e)))
                continue
            v, _, _ = judge(name, cmd, {"blocksize": bs}, "%s on facade %s (block size %d) while a facade with another block size exists" % (m, label, bs))
            out += [("two/" + k, w) for k, w in v]
            if who.blocksize != bs:
                out.append(("two/blocksize", "facade %s reads back block size %r, configured %d" % (label, who.blocksize, bs)))
    finally:
        ra.close()
        rb.close()
    return out


def replay(case):
    if case[0] == "copied_facade":
        return run_copied_facade(case[1], case[2])
    if case[0] == "two":
        return run_two(case)
    return run_facade(case) if case[0] == "facade" else run_case(case)


def run_partition(part, tier, seed):
    ensure_rigs()
    acc = Acc(seed)
    if part[0] == "two":
        for order in (0, 1):
            case = ["copied_facade", part[1], order]
            acc.case(case, nontrivial=True, key=repr(case))
            try:
                v = run_copied_facade(part[1], order)
            except Exception:
                import traceback
                v = [("harness_error", traceback.format_exc()[-600:])]
            for kk, w in v:
                acc.violation(kk, w, case)
            acc.outcome((repr(case), tuple(x for x, _ in v)))
        for m in ("read10", "read12", "read16", "write10", "write12", "write16"):
            for order in (0, 1, 2) + ((3,) if m == "read10" else ()):
                case = ["two", part[1], m, order]
                acc.case(case, nontrivial=True, key=repr(case))
                try:
                    v = run_two(case)
                except Exception:
                    import traceback
                    v = [("harness_error", traceback.format_exc()[-600:])]
                for kk, w in v:
                    acc.violation(kk, w, case)
                acc.outcome((repr(case), tuple(x for x, _ in v)))
        return acc
    if part[0] == "facade":
        from vf import facade as F
        _, tr, method = part
        extras = [{}]
        if method == "persistentreservein":
            extras = [{"service_action": sa} for sa in range(4)]
        elif method == "inquiry":
            extras = [{}, {"evpd": 1, "page_code": 0x83}, {"evpd": 1, "page_code": 0xB0}, {"alloclen": 8}]
        elif method in ("modesense6", "modesense10"):
            extras = [{"page_code": 0x0A}, {"page_code": 0x3F, "alloclen": 24}]
        for st in F.sets_offering(method):
            for extra in extras:
                for variant in (0, 2, 3, 4, 5, 6, 7, 8, 9):
                    case = ["facade", tr, method, st, extra, variant]
                    acc.case(case, nontrivial=True, key=repr(case))
                    obs = []
                    try:
                        v = run_facade(case, obs)
                    except Exception:
                        import traceback
                        v = [("harness_error", traceback.format_exc()[-600:])]
                    for kk, w in v:
                        acc.violation(kk, w, case)
                    acc.outcome((method, tuple(obs), tuple(x for x, _ in v)))
        return acc
    name, st, key, ata_tl = part
    k = bounds(tier)["k"]
    if CS.get_opcode(st, key) is None:
        return acc

    def do(case, nontrivial):
        acc.case(case, nontrivial=nontrivial, key=repr(case))
        obs = []
        try:
            v = run_case(case, obs)
        except Exception:
            import traceback
            v = [("harness_error", traceback.format_exc()[-600:])]
        for kk, w in v:
            acc.violation(kk, w, case)
        acc.outcome((name, tuple(obs), tuple(x for x, _ in v)))

    if name in ("Write10", "Write12", "Write16", "WriteSame10", "WriteSame16"):
        for kind in PAYLOAD_KINDS:
            for tl in (1, 2):
                do(["payload", name, st, key, kind, tl], True)
    if name in ("Read10", "Read12", "Read16", "Write10", "Write12", "Write16"):
        for bsname in ODD_BLOCKSIZES:
            for tl in (1, 2, 3):
                do(["odd_blocksize", name, st, key, bsname, tl], True)
    do(["alloc_failure", name, st, key], True)
    do(["alloc_failure", name, st, key, 1 << 21], True)
    for param in new_parameters(name):
        for value in NEW_PARAM_VALUES:
            do(["new_param", name, st, key, param, value], True)
    if name in S.ATA_LBA_BYTES:
        mx = 0xFFFF if name.endswith("16") else 0xFF
        for bb, tt, td, give, bsz, xtl, cnt, fet in itertools.product((0, 1), (0, 1), (0, 1), (False, True), (0, 512, 4096), (None, 3),
                                                                     (0, 1, 2, mx), (0, 1, 5, mx)):
            unit = 1 if not bb else (512 if not tt else bsz)
            n = 0 if ata_tl == 0 else fet if ata_tl == 1 else cnt if ata_tl == 2 else (xtl or 0)
            if n * unit > MAXBYTES:
                continue
            point = dict(protocal=4, t_length=ata_tl, byte_block=bb, t_dir=td, t_type=tt, off_line=0, fetures=fet, count=cnt, lba=0x123456,
                         command=0x25, blocksize=bsz, _data=give)
            if xtl is not None:
                point["extra_tl"] = xtl
            do([name, st, key, point, None, 0], True)
        # the PROTOCOL field does not enter the transfer rules: all 16 values x T_LENGTH (this partition) x BYTE_BLOCK x T_TYPE x T_DIR
        for proto, bb, tt, td, give, xtl in itertools.product(range(16), (0, 1), (0, 1), (0, 1), (False, True), (None, 3)):
            if proto == 4:
                continue
            point = dict(protocal=proto, t_length=ata_tl, byte_block=bb, t_dir=td, t_type=tt, off_line=0, fetures=5, count=2, lba=0x123456,
                         command=0x25, blocksize=512, _data=give)
            if xtl is not None:
                point["extra_tl"] = xtl
            do([name, st, key, point, None, 0], True)
        return acc
    if name == "ReadCd":
        # the selection arguments interact: full product of sector type x main channel selection x C2 x sub-channel x length
        for est, mcsb, c2, sc, tl in itertools.product(range(6), (0, 0x02, 0x03, 0x06, 0x0A, 0x10, 0x1F), (0, 1, 2), (0, 2, 4), (0, 1, 2, 3)):
            do([name, st, key, {"lba": 0x10, "tl": tl, "est": est, "mcsb": mcsb, "c2ei": c2, "scsb": sc}, None, 0], True)
    sizes = (1, 512, 520, 4096) if name in BLOCK else (None,)
    variants = range(3) if name in ("PersistentReserveOut", "ExtendedCopy4", "ExtendedCopy5") else (0,)
    for point, r in CS.points(name, k, MAXBYTES):
        for bs in sizes:
            if bs and bs * point.get("tl", 0) > MAXBYTES:
                continue
            for var in variants:
                do([name, st, key, point, bs, var], r > 0 or bs not in (None, 512) or var > 0)
    return acc
