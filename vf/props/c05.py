"""C05 - parameter lists sent to the device have the standard layout and honest lengths."""
import copy
import itertools

from vf import cmdspace as CS
from vf.props import c04
from vf.runner import Acc
from vf.spec import bits
from vf.spec import cdb as S
from vf.spec import paramlists as P
from vf.spec import responses as R

ID = "C05"
LEVEL = "exploration"
TECHNIQUE = "(two threads sharing one set of EXTENDED COPY descriptor dictionaries: all schedules with one preemption at source-line granularity) deviation-bounded exhaustive enumeration of valid parameter dictionaries; every composed data-out list is decoded by independent decoders that also recompute every embedded length, and the CDB's parameter list length is read back with the spec CDB decoder"
RULE = ("MODE SELECT 6/10 x 4 pages x every field over its alphabet (k deviations from all-zero/all-ones, k=1 quick, 2 thorough) x pf/sp x header "
        "values x 1-2 pages per list, plus lists of 3-200 pages (MODE SELECT(10): across 255 bytes up to ~6 KB; MODE SELECT(6): up to 7 pages); PERSISTENT RESERVE OUT x service actions 0-8 x 64-bit key alphabets x flag products x 0-3 TransportIDs of 6 "
        "kinds x iSCSI name lengths 1..26 x format 00b/01b, REGISTER AND MOVE with/without TransportID; EXTENDED COPY LID1 and LID4 x header "
        "fields x 0-3 identification CSCD descriptors (NAA 5/6, EUI-64 8/12/16, T10 vendor id; block/tape/processor device types) x 0-3 segment "
        "descriptors of each implemented type {00,01,02,0B,0C,0D} x inline data {0,1,5 bytes}; one caller dictionary re-used for two commands of every ordered pair of segment kinds; every list is built a second time from the same values presented differently (reversed key order in every dictionary, int-subclass integers, bytes<->bytearray; every dictionary an OrderedDict / a collections.defaultdict(list) / an autovivifying defaultdict tree) and must come out identical; and once with every list given as a one-shot iterator and once as a generator re-using one scratch dict for its elements (refusal accepted, a silently different list is not). Non-trivial = any non-default value or "
        "descriptor; distinct = distinct (command, dictionary).")
ASSUMPTIONS = [
    "oracle: vf/spec/paramlists.py decoders (positions of SPC-4 6.3/6.14/7.5/7.6.4) over vf/spec/bits.py",
    "MODE SELECT's MODE DATA LENGTH: 0 (reserved for MODE SELECT) or the number of bytes that follow are both accepted (DESIGN §6)",
    "only valid dictionaries: SPEC_I_PT with REGISTER only; CSCD designators that fit the 20 available bytes; excluded: SOP TransportIDs, segment descriptor byte 1 beyond CAT/DC",
]


def bounds(tier):
    return {"k": 1 if tier == "quick" else 2}


def opcode_of(name):
    for st, key in S.CLASSES[name]["tables"]:
        op = CS.get_opcode(st, key)
        if op is not None:
            return op


def pll_check(name, cmd, where):
    d = S.decode(name, bytes(cmd.cdb))
    if d["parameter_list_length"] != len(cmd.dataout):
        return [("%s/cdb_parameter_list_length" % name, "%s: CDB says %d, the list has %d bytes" % (where, d["parameter_list_length"], len(cmd.dataout)))]
    return []


# ---------------------------------------------------------------------------------------------------------
class _I(int):
    """an int subclass (IntEnum members and the like)"""


def represent(x):
    """the same parameter values presented differently: dictionaries filled in the opposite key order, integers as instances of an
    int subclass (bool for 0/1), bytes <-> bytearray.  The list the library builds must not depend on any of this."""
    if isinstance(x, dict):
        return {k: represent(v) for k, v in reversed(list(x.items()))}
    if isinstance(x, list):
        return [represent(v) for v in x]
    if type(x) is int:
        return bool(x) if x in (0, 1) else _I(x)
    if type(x) is bytes:
        return bytearray(x)
    if type(x) is bytearray:
        return bytes(x)
    return x


class NumLike(object):
    """an integer the way numeric libraries hand them out (numpy.uint64 and friends): not an int subclass, no int methods
    (to_bytes, bit_length), but __index__ / __int__, arithmetic, bit operators and comparisons"""
    __slots__ = ("v",)

    def __init__(self, v):
        self.v = int(v)

    def __index__(self):
        return self.v

    __int__ = __index__

    def __bool__(self):
        return bool(self.v)

    def __hash__(self):
        return hash(self.v)

    def __repr__(self):
        return "NumLike(%d)" % self.v


def _numlike_ops():
    import operator
    for name in ("add", "sub", "mul", "floordiv", "mod", "lshift", "rshift", "and", "or", "xor"):
        op = getattr(operator, name + "_" if name in ("and", "or") else name)
        setattr(NumLike, "__%s__" % name, (lambda op: lambda a, b: NumLike(op(a.v, int(b))))(op))
        setattr(NumLike, "__r%s__" % name, (lambda op: lambda a, b: NumLike(op(int(b), a.v)))(op))
    for name in ("eq", "ne", "lt", "le", "gt", "ge"):
        op = getattr(operator, name)

        def cmp(a, b, op=op):
            try:
                return op(a.v, int(b))
            except (TypeError, ValueError):
                return NotImplemented
        setattr(NumLike, "__%s__" % name, cmp)
    NumLike.__neg__ = lambda a: NumLike(-a.v)
    NumLike.__invert__ = lambda a: NumLike(~a.v)


_numlike_ops()


def numlike(x):
    """every plain integer value (not bool, not dictionary keys) replaced by a NumLike"""
    if isinstance(x, dict):
        return {k: numlike(v) for k, v in x.items()}
    if isinstance(x, list):
        return [numlike(v) for v in x]
    if type(x) is int:
        return NumLike(x)
    return x


def same_list_numlike(build, buf, cdb, tag, where):
    try:
        c2 = build()
        b2, c2 = bytes(c2.dataout), bytes(c2.cdb)
    except Exception as e:   # noqa: BLE001
        return [("%s/integer_like_values" % tag, "%s: the same values as integer-like objects (__index__, operators; no int methods) raised %s: %s" % (where, type(e).__name__, e))]
    if b2 != buf or c2 != cdb:
        return [("%s/integer_like_values" % tag, "%s: the same values as integer-like objects give another list / CDB" % where)]
    return []


def mappingize(x, kind):
    """the same parameter values in other dict types callers really use: collections.defaultdict (a missing key springs into
    existence as an empty list / a nested tree when somebody probes it), OrderedDict"""
    import collections
    if isinstance(x, dict):
        if kind == "ordered":
            d = collections.OrderedDict()
        elif kind == "deflist":
            d = collections.defaultdict(list)
        else:
            def tree():
                return collections.defaultdict(tree)
            d = tree()
        for k, v in x.items():
            d[k] = mappingize(v, kind)
        return d
    if isinstance(x, list):
        return [mappingize(v, kind) for v in x]
    return x


def same_list_mapping(build_with, buf, cdb, tag, where):
    out = []
    for kind in ("ordered", "deflist", "tree"):
        try:
            c2 = build_with(kind)
            b2, c2 = bytes(c2.dataout), bytes(c2.cdb)
        except Exception as e:   # noqa: BLE001
            out.append(("%s/mapping_type" % tag, "%s: the same values held in %s raised %s: %s"
                        % (where, {"ordered": "OrderedDicts", "deflist": "collections.defaultdict(list) dictionaries", "tree": "autovivifying defaultdict trees"}[kind], type(e).__name__, e)))
            continue
        if b2 != buf or c2 != cdb:
            out.append(("%s/mapping_type" % tag, "%s: the same values held in %s dictionaries give another list / CDB" % (where, kind)))
    return out


def iterize(x):
    """lists handed over as one-shot iterators (a generator expression, map(...), iter(list))"""
    if isinstance(x, dict):
        return {k: iterize(v) for k, v in x.items()}
    if isinstance(x, list):
        return iter([iterize(v) for v in x])
    return x


def reyield(x):
    """lists handed over as generators of a streaming producer that re-uses ONE scratch dict for every element (filled just before it
    is yielded): each element is complete while the consumer holds it, as with a row cursor"""
    if isinstance(x, dict):
        return {k: reyield(v) for k, v in x.items()}
    if isinstance(x, list):
        if x and all(isinstance(v, dict) for v in x):
            def gen(items=[reyield(v) for v in x]):
                scratch = {}
                for it in items:
                    scratch.clear()
                    scratch.update(it)
                    yield scratch
            return gen()
        return iter([reyield(v) for v in x])
    return x


def same_list_iter(build, buf, tag, where):
    """where the library accepts an iterable in place of a list at all (it does for TransportID lists), it must see every element:
    a refusal (TypeError for len() of an iterator, ...) is not judged, a silently different list is"""
    try:
        b2 = bytes(build().dataout)
    except Exception:   # noqa: BLE001
        return []
    if b2 != buf:
        return [("%s/iterable_argument" % tag, "%s: with the descriptor lists given as one-shot iterators (or generators re-using one scratch dict per element) the library builds another list without complaint (%d bytes instead of %d)"
                 % (where, len(b2), len(buf)))]
    return []


def same_list_again(build, buf, cdb, tag, where):
    try:
        c2 = build()
        b2, c2 = bytes(c2.dataout), bytes(c2.cdb)
    except Exception as e:   # noqa: BLE001
        return [("%s/representation" % tag, "%s: the same values with reversed key order / int subclasses / bytes<->bytearray raised %s: %s" % (where, type(e).__name__, e))]
    if b2 != buf or c2 != cdb:
        i = next((i for i in range(min(len(buf), len(b2))) if buf[i] != b2[i]), min(len(buf), len(b2)))
        return [("%s/representation" % tag, "%s: the same values with reversed key order / int subclasses / bytes<->bytearray give another list (first difference at byte %d: %s vs %s)"
                 % (where, i, b2[max(0, i - 2):i + 6].hex(), buf[max(0, i - 2):i + 6].hex()))]
    return []


def run_case(case, obs=None):
    kind = case[0]
    out = []
    if kind == "mode":
        _, ten, pages, hdr, pf, sp = case
        name = "ModeSelect10" if ten else "ModeSelect6"
        data = dict(hdr)
        data["mode_pages"] = []
        for (pc, sub, vals) in pages:
            mp = dict(vals, ps=0, spf=0 if sub is None else 1, page_code=pc)
            if sub is not None:
                mp["sub_page_code"] = sub
            data["mode_pages"].append(mp)
        where = "%s(pages=%r, header=%r, pf=%d, sp=%d)" % (name, [(hex(p), s) for p, s, _ in pages], hdr, pf, sp)
        try:
            cmd = CS.get_class(name)(opcode_of(name), copy.deepcopy(data), pf=pf, sp=sp)
        except Exception as e:   # noqa: BLE001
            return [("%s/raises" % name, "%s raised %s: %s" % (where, type(e).__name__, e))]
        buf = bytes(cmd.dataout)
        if obs is not None:
            obs.append(buf)
            obs.append(cmd)
        h, pgs, problems = P.mode_list(buf, ten)
        for p in problems:
            out.append(("%s/length/%s" % (name, p.split(":")[0].split(" is ")[0][:30]), "%s: %s (list %s)" % (where, p, buf[:16].hex())))
        for k, v in hdr.items():
            if h.get(k) != v:
                out.append(("%s/header/%s" % (name, k), "%s: header %s=%r in the list, supplied %r" % (where, k, h.get(k), v)))
        if len(pgs) != len(pages):
            out.append(("%s/page_count" % name, "%s: %d pages in the list" % (where, len(pgs))))
        else:
            for (pc, sub, vals), g in zip(pages, pgs):
                tag = "page%02x%s" % (pc, "" if sub is None else "_%02x" % sub)
                if g["page_code"] != pc or g.get("sub_page_code") != sub or g["spf"] != (0 if sub is None else 1):
                    out.append(("%s/%s/header" % (name, tag), "%s: page header decoded %r" % (where, {k: g[k] for k in ("page_code", "spf")})))
                for k, v in vals.items():
                    if g.get(k) != v:
                        out.append(("%s/%s/%s" % (name, tag, k), "%s: %s=%r in the list, supplied %r" % (where, k, g.get(k), v)))
        c = S.decode(name, bytes(cmd.cdb))
        if c["pf"] != pf or c["sp"] != sp:
            out.append(("%s/cdb_flags" % name, "%s: CDB pf/sp %r/%r" % (where, c["pf"], c["sp"])))
        if not out:
            out += same_list_again(lambda: CS.get_class(name)(opcode_of(name), represent(data), pf=represent(pf), sp=represent(sp)), buf, bytes(cmd.cdb), name, where)
            out += same_list_mapping(lambda kind: CS.get_class(name)(opcode_of(name), mappingize(data, kind), pf=pf, sp=sp), buf, bytes(cmd.cdb), name, where)
            out += same_list_numlike(lambda: CS.get_class(name)(opcode_of(name), numlike(data), pf=pf, sp=sp), buf, bytes(cmd.cdb), name, where)
            out += same_list_iter(lambda: CS.get_class(name)(opcode_of(name), iterize(data), pf=pf, sp=sp), buf, name, where)
            out += same_list_iter(lambda: CS.get_class(name)(opcode_of(name), reyield(data), pf=pf, sp=sp), buf, name + "/scratch", where)
            # a page_0 format page described with its (non-existent) subpage spelled out as 00h: the same page, the same list
            data0 = copy.deepcopy(data)
            for mp in data0["mode_pages"]:
                if not mp["spf"]:
                    mp["sub_page_code"] = 0
            try:
                b0 = bytes(CS.get_class(name)(opcode_of(name), data0, pf=pf, sp=sp).dataout)
            except Exception as e:   # noqa: BLE001
                b0 = ("raised %s: %s" % (type(e).__name__, e)).encode()
            if b0 != buf:
                out.append(("%s/subpage_zero_spelled_out" % name, "%s: with sub_page_code=0 added to the page_0 format pages the list is %s, without %s"
                            % (where, b0[:40].hex() if not b0.startswith(b"raised") else b0.decode(), buf[:40].hex())))
        return out + pll_check(name, cmd, where)
    if kind == "prout":
        _, sa, items, tid_idx = case
        name = "PersistentReserveOut"
        kw = dict(items)
        tids = [tid_of(i) for i in tid_idx]
        if sa == 7:
            if tids:
                kw["transport_id"] = copy.deepcopy(tids[0])
        elif kw.get("spec_i_pt"):
            kw["transport_ids"] = copy.deepcopy(tids)
        where = "PersistentReserveOut(sa=%d, %r, transport ids %r)" % (sa, items, tid_idx)
        try:
            cmd = CS.get_class(name)(opcode_of(name), sa, 0, 1, **kw)
        except Exception as e:   # noqa: BLE001
            return [("prout/raises", "%s raised %s: %s" % (where, type(e).__name__, e))]
        buf = bytes(cmd.dataout)
        if obs is not None:
            obs.append(buf)
            obs.append(cmd)
        if sa == 7:
            d, tid, problems = P.pr_out_move(buf)
            got_tids = [tid] if tid is not None else []
            want_tids = tids[:1]
        else:
            d, got_tids, problems = P.pr_out_basic(buf)
            want_tids = tids if kw.get("spec_i_pt") else []
        for p in problems:
            out.append(("prout/length/%s" % p.split(",")[0].split(" ")[0][:24], "%s: %s" % (where, p)))
        for k, v in items.items():
            if sa == 7 and k in ("spec_i_pt", "all_tg_pt"):
                continue          # flags of the basic list, not applicable to REGISTER AND MOVE: ignored (the list must simply stay well-formed)
            if k in d and d[k] != v:
                out.append(("prout/%s/%s" % ("move" if sa == 7 else "basic", k), "%s: %s=%r in the list, supplied %r" % (where, k, d[k], v)))
            elif k not in d and k not in ("transport_ids", "transport_id"):
                out.append(("prout/unknown_key/%s" % k, "%s: key %s has no place in this list" % (where, k)))
        if len(got_tids) != len(want_tids):
            out.append(("prout/transportid_count", "%s: %d TransportIDs in the list, %d supplied" % (where, len(got_tids), len(want_tids))))
        else:
            for g, w in zip(got_tids, want_tids):
                for k, v in w.items():
                    gv = g.get(k)
                    if isinstance(v, (bytes, bytearray)):
                        v, gv = bytes(v), bytes(gv) if gv is not None else None
                    if k == "tpid_format":
                        v = v or 0
                    if gv != v:
                        out.append(("prout/transportid/p%d/%s" % (w["protocol_id"], k), "%s: TransportID %s=%r in the list, supplied %r" % (where, k, gv, v)))
        if not out:
            kw2 = dict(items)
            if sa == 7:
                if tids:
                    kw2["transport_id"] = copy.deepcopy(tids[0])
            elif kw2.get("spec_i_pt"):
                kw2["transport_ids"] = copy.deepcopy(tids)
            out += same_list_again(lambda: CS.get_class(name)(opcode_of(name), sa, 0, 1, **represent(kw2)), buf, bytes(cmd.cdb), "prout", where)
            out += same_list_mapping(lambda kind: CS.get_class(name)(opcode_of(name), sa, 0, 1, **{k: mappingize(v, kind) for k, v in kw2.items()}), buf, bytes(cmd.cdb), "prout", where)
            out += same_list_numlike(lambda: CS.get_class(name)(opcode_of(name), sa, 0, 1, **numlike(kw2)), buf, bytes(cmd.cdb), "prout", where)
            out += same_list_iter(lambda: CS.get_class(name)(opcode_of(name), sa, 0, 1, **iterize(kw2)), buf, "prout", where)
            out += same_list_iter(lambda: CS.get_class(name)(opcode_of(name), sa, 0, 1, **reyield(kw2)), buf, "prout/scratch", where)
        return out + pll_check(name, cmd, where)
    if kind == "xcopy":
        _, ver, hdr, cscd_idx, seg_idx, inline_n = case
        name = "ExtendedCopy%d" % ver
        cscds = [cscd_of(i, ver) for i in cscd_idx]
        segs = [seg_of(i, ver) for i in seg_idx]
        inline = bytearray(b"\xde\xad\xbe\xef\x99"[:inline_n])
        kw = dict(hdr)
        kw["target_descriptor_list" if ver == 4 else "cscd_descriptor_list"] = copy.deepcopy([c[0] for c in cscds])
        kw["segment_descriptor_list"] = copy.deepcopy([s[0] for s in segs])
        kw["inline_data"] = inline
        where = "%s(%r, cscd %r, segments %r, inline %d)" % (name, hdr, cscd_idx, seg_idx, inline_n)
        try:
            cmd = CS.get_class(name)(opcode_of(name), **kw)
        except Exception as e:   # noqa: BLE001
            tag = "seg%s" % "_".join("%02x" % SEGS[i % len(SEGS)][0] for i in seg_idx) if seg_idx else "nosegs"
            return [("xcopy%d/raises/%s" % (ver, tag if len(seg_idx) <= 1 else "segs"), "%s raised %s: %s" % (where, type(e).__name__, e))]
        buf = bytes(cmd.dataout)
        if obs is not None:
            obs.append(buf)
            obs.append(cmd)
        h, gc, gs, gi, problems = P.xcopy(buf, ver == 5)
        for p in problems:
            out.append(("xcopy%d/length/%s" % (ver, p.split(" ")[0][:20]), "%s: %s" % (where, p)))
        hmap = {"sequential_striped": "str"}
        for k, v in hdr.items():
            kk = hmap.get(k, k)
            if h.get(kk) != v:
                out.append(("xcopy%d/header/%s" % (ver, kk), "%s: header %s=%r, supplied %r" % (where, kk, h.get(kk), v)))
        if len(gc) != len(cscds):
            out.append(("xcopy%d/cscd_count" % ver, "%s: %d CSCD descriptors in the list" % (where, len(gc))))
        else:
            for g, (_, want) in zip(gc, cscds):
                for k, v in want.items():
                    if g.get(k) != v:
                        out.append(("xcopy%d/cscd/%s" % (ver, k), "%s: CSCD %s=%r in the list, supplied %r" % (where, k, g.get(k), v)))
        if len(gs) != len(segs):
            out.append(("xcopy%d/segment_count" % ver, "%s: %d segment descriptors decoded" % (where, len(gs))))
        else:
            for g, (_, want) in zip(gs, segs):
                for k, v in want.items():
                    if g.get(k) != v:
                        out.append(("xcopy%d/seg%02x/%s" % (ver, want["descriptor_type_code"], k), "%s: segment %s=%r in the list, supplied %r" % (where, k, g.get(k), v)))
        if gi != bytes(inline):
            out.append(("xcopy%d/inline" % ver, "%s: inline data %s in the list" % (where, gi.hex())))
        d = S.decode(name, bytes(cmd.cdb))
        if d["service_action"] != (0 if ver == 4 else 1):
            out.append(("xcopy%d/service_action" % ver, "%s: service action %d" % (where, d["service_action"])))
        if not out:
            kw2 = dict(hdr)
            kw2["target_descriptor_list" if ver == 4 else "cscd_descriptor_list"] = copy.deepcopy([c[0] for c in cscds])
            kw2["segment_descriptor_list"] = copy.deepcopy([s_[0] for s_ in segs])
            kw2["inline_data"] = bytearray(inline)
            out += same_list_again(lambda: CS.get_class(name)(opcode_of(name), **represent(kw2)), buf, bytes(cmd.cdb), "xcopy%d" % ver, where)
            out += same_list_mapping(lambda kind: CS.get_class(name)(opcode_of(name), **{k: mappingize(v, kind) for k, v in kw2.items()}), buf, bytes(cmd.cdb), "xcopy%d" % ver, where)
            out += same_list_numlike(lambda: CS.get_class(name)(opcode_of(name), **numlike(kw2)), buf, bytes(cmd.cdb), "xcopy%d" % ver, where)
            out += same_list_iter(lambda: CS.get_class(name)(opcode_of(name), **iterize(kw2)), buf, "xcopy%d" % ver, where)
            out += same_list_iter(lambda: CS.get_class(name)(opcode_of(name), **reyield(kw2)), buf, "xcopy%d/scratch" % ver, where)
        return out + pll_check(name, cmd, where)
    if kind == "xreuse":
        # the caller re-uses one segment dictionary for two commands of different descriptor kinds
        _, ver, code_a, code_b = case
        name = "ExtendedCopy%d" % ver
        src, dst = ("source_target_descriptor_id", "destination_target_descriptor_id") if ver == 4 else ("source_cscd_descriptor_id", "destination_cscd_descriptor_id")
        seg = {src: 1, dst: 2, "block_device_number_of_blocks": 9, "cat": 1}
        out = []
        for step, code in enumerate((code_a, code_b)):
            seg["descriptor_type_code"] = code
            where = "%s with one segment dictionary re-used, kinds %#04x then %#04x, use %d" % (name, code_a, code_b, step)
            try:
                cmd = CS.get_class(name)(opcode_of(name), segment_descriptor_list=[seg])
            except Exception as e:   # noqa: BLE001
                return out + [("xcopy%d/reuse/raises" % ver, "%s raised %s: %s" % (where, type(e).__name__, e))]
            buf = bytes(cmd.dataout)
            if obs is not None and step == 1:
                obs.append(buf)
                obs.append(cmd)
            h, gc, gs, gi, problems = P.xcopy(buf, ver == 5)
            for p in problems:
                out.append(("xcopy%d/reuse/length" % ver, "%s: %s" % (where, p)))
            if len(gs) != 1 or gs[0]["descriptor_type_code"] != code or gs[0]["source"] != 1 or gs[0]["destination"] != 2 or \
                    gs[0]["block_device_number_of_blocks"] != 9:
                out.append(("xcopy%d/reuse/fields" % ver, "%s: decoded %r" % (where, gs)))
            out += pll_check(name, cmd, where)
        return out
    raise ValueError(kind)


# ---- catalogues ---------------------------------------------------------------------------------------
def tid_of(i):
    if isinstance(i, list):          # ["iscsi", name length, format]
        _, n, fmt = i
        nm = ("iqn.2000-01.verif:abcdefghijklmnopqrstuvwxyz"[:n]) if n > 4 else "abcd"[:n]
        t = {"protocol_id": 5, "iscsi_name": nm}
        if fmt:
            t["tpid_format"] = 1
            t["iscsi_initiator_session_id"] = "00023d000001"
        return t
    return dict(c04.TIDS[i])


DESIGS = [
    (3, {"naa": 5, "ieee_company_id": 0x589CFC, "vendor_specific_identifier": 0x800000C44}),
    (3, {"naa": 6, "ieee_company_id": 0xFFFFFF, "vendor_specific_identifier": 1, "vendor_specific_identifier_extension": 0x8000000000000001}),
    (2, {"ieee_company_id": 0xABCDEF, "vendor_specific_extension_id": b"\x01\x02\x03\x04\x05"}),
    (2, {"ieee_company_id": 0x800001, "vendor_specific_extension_id": b"\x11\x12\x13\x14\x15", "directory_id": b"\xd1\xd2\xd3\xd4"}),
    (2, {"identifier_extension": bytes(range(0xE0, 0xE8)), "ieee_company_id": 0x123456, "vendor_specific_extension_id": b"\x21\x22\x23\x24\x25"}),
    (1, {"t10_vendor_id": b"VENDORID", "vendor_specific_id": b"serial-12345"}),
    (3, {"naa": 2, "vendor_specific_identifier_a": 0xABC, "ieee_company_id": 0x123456, "vendor_specific_identifier_b": 0xFEDCBA}),
    (3, {"naa": 3, "locally_administered_value": 0x0FEDCBA987654321}),
]
DEVTYPES = [(0, {"disk_block_length": 512, "pad": 1}, {"block_length": 512, "pad": 1, "fixed": 0}),
            (1, {"stream_block_length": 0x010203, "fixed": 1, "pad": 1}, {"block_length": 0x010203, "fixed": 1, "pad": 1}),
            (3, {"pad": 1}, {"pad": 1, "block_length": 0}),
            (5, {"disk_block_length": 2048}, {"block_length": 2048, "pad": 0}),
            (0x0E, {"disk_block_length": 0xFFFFFF}, {"block_length": 0xFFFFFF})]


def cscd_of(i, ver):
    dtype, desig = DESIGS[i % len(DESIGS)]
    dev, devkw, devexp = DEVTYPES[(i // len(DESIGS)) % len(DEVTYPES)]
    rel = (0, 1, 0xFFFF)[i % 3]
    payload0 = R.designator_bytes(dtype, desig)
    # the optional, redundant designator_length key: absent, correct, or stale (as when the dictionary comes from an INQUIRY result
    # and the designator was edited afterwards) - the list must carry the honest length in every case
    params = {"code_set": 1 + (i % 2), "association": i % 3, "designator_type": dtype, "designator": dict(desig)}
    variant = (i // (len(DESIGS) * len(DEVTYPES))) % 4
    if variant == 1:
        params["designator_length"] = len(payload0)
    elif variant == 2:
        params["designator_length"] = 0xFF
    elif variant == 3:
        params["designator_length"] = 0
    d = {"descriptor_type_code": 0xE4, "peripheral_device_type": dev, "relative_initiator_port_identifier": rel,
         ("target_descriptor_parameters" if ver == 4 else "cscd_descriptor_parameters"): params, "device_type_specific_parameters": dict(devkw)}
    payload = R.designator_bytes(dtype, desig)
    want = dict(devexp, descriptor_type_code=0xE4, lu_id_type=0, peripheral_device_type=dev, relative_initiator_port_identifier=rel,
                code_set=params["code_set"], association=params["association"], designator_type=dtype, designator_length=len(payload),
                designator_bytes=payload)
    return d, want


SEG_SIZE_CODES = (0x00, 0x01, 0x02, 0x0B, 0x0C, 0x0D)
SEGS = [
    (0x00, "bs"), (0x01, "bs"), (0x02, "bb"), (0x0B, "bs"), (0x0C, "bs"), (0x0D, "bb"),
]


def seg_of(i, ver):
    code, shape = SEGS[i % len(SEGS)]
    variant = i // len(SEGS)
    src, dst = ("source_target_descriptor_id", "destination_target_descriptor_id") if ver == 4 else ("source_cscd_descriptor_id", "destination_cscd_descriptor_id")
    big = variant % 2
    if shape == "bs":
        vals = {"stream_device_transfer_length": 0xFFFFFF if big else 0x010203, "block_device_number_of_blocks": 0xFFFF if big else 4,
                "block_device_logical_block_address": 0xFFFFFFFFFFFFFFFF if big else 0x0102030405060708, "cat": big}
    else:
        vals = {"block_device_number_of_blocks": 0xFFFF if big else 4, "source_block_device_logical_block_address": (1 << 63) if big else 1,
                "destination_block_device_logical_block_address": 0xFFFFFFFFFFFFFFFF if big else 10, "dc": 1 - big, "cat": big}
    d = dict(vals, descriptor_type_code=code)
    d[src] = 0xFFFF if big else 0
    d[dst] = 1
    want = dict(vals, descriptor_type_code=code, source=d[src], destination=1)
    return d, want


def replay(case):
    if case and case[0] == "limits":
        return run_limits(*case[1:])
    if case and case[0] == "sched":
        from vf.props import c09
        return c09.replay(case)
    return run_case(c04._unjson(case))


def run_limits(ver, which, n):
    """descriptor lists whose byte count reaches or passes the width of their LENGTH field (2047 / 2048 / 2049 CSCD descriptors of 32
    bytes around 65535; 2340 / 2341 segment descriptors of 28 bytes): the command is refused, or every embedded length equals the
    bytes that follow - a length field never wraps"""
    import copy as _copy
    from vf.props import c09
    name = "ExtendedCopy%d" % ver
    cls = CS.get_class(name)
    kw = {}
    if which == "cscd":
        kw["target_descriptor_list" if ver == 4 else "cscd_descriptor_list"] = _copy.deepcopy([c09._cscd(ver, 3, c09.NAA2)] * n)
    else:
        kw["segment_descriptor_list"] = _copy.deepcopy([c09.SEG4 if ver == 4 else c09.SEG5] * n)
    try:
        cmd = cls(opcode_of(name), **kw)
    except Exception:   # noqa: BLE001 - refused
        return []
    d = bytes(cmd.dataout)
    hdr = 16 if ver == 4 else 48
    ncscd = n * 32 if which == "cscd" else 0
    nseg = n * 28 if which == "seg" else 0
    if ver == 4:
        got = {"cscd": int.from_bytes(d[2:4], "big"), "seg": int.from_bytes(d[8:12], "big")}
    else:
        got = {"cscd": int.from_bytes(d[42:44], "big"), "seg": int.from_bytes(d[44:46], "big")}
    out = []
    where = "%s with %d %s descriptors" % (name, n, "CSCD" if which == "cscd" else "segment")
    if len(d) != hdr + ncscd + nseg:
        out.append(("limits/total/%s" % name, "%s: parameter list of %d bytes, expected %d" % (where, len(d), hdr + ncscd + nseg)))
    if got["cscd"] != ncscd or got["seg"] != nseg:
        out.append(("limits/length_field_wraps/%s/%s" % (name, which), "%s: %d + %d bytes of descriptors follow the header, the length fields say %d and %d"
                    % (where, ncscd, nseg, got["cscd"], got["seg"])))
    if int.from_bytes(bytes(cmd.cdb)[10:14], "big") != len(d):
        out.append(("limits/cdb/%s" % name, "%s: PARAMETER LIST LENGTH %d, list has %d bytes" % (where, int.from_bytes(bytes(cmd.cdb)[10:14], "big"), len(d))))
    return out


LIMIT_CASES = [(ver, "cscd", n) for ver in (4, 5) for n in (2046, 2047, 2048, 2049, 4096)] + [(ver, "seg", n) for ver in (4, 5) for n in (2339, 2340, 2341, 2342, 4681)]


def partitions(tier):
    parts = [["mode", 0], ["mode", 1], ["prout_keys"], ["prout_tids"], ["prout_iscsi"], ["xcopy", 4], ["xcopy", 5]]
    return [[p, c] for p in parts for c in range(NCHUNK)] + [[["shared_threads", 4], 0], [["shared_threads", 5], 0], [["limits"], 0]]


def gen(part, tier):
    k = bounds(tier)["k"]
    if part[0] == "mode":
        ten = part[1]
        h0 = {"medium_type": 0, "device_specific_parameter": 0}
        hdrs = [h0, {"medium_type": 0xFF, "device_specific_parameter": 0x81}]
        if ten:
            hdrs.append({"medium_type": 1, "device_specific_parameter": 0, "longlba": 1})
        keys = list(R.MODE_PAGES)
        for (pc, sub) in keys:
            fields, _ = R.MODE_PAGES[(pc, sub)]
            for vals in c04.field_points(fields, k):
                yield ["mode", ten, [[pc, sub, vals]], h0, 1, 0]
            for hdr in hdrs:
                for pf in (0, 1):
                    for sp in (0, 1):
                        yield ["mode", ten, [[pc, sub, {fields[0][0]: 1}]], hdr, pf, sp]
        for a, b in itertools.permutations(keys, 2):
            fa, fb = R.MODE_PAGES[a][0], R.MODE_PAGES[b][0]
            yield ["mode", ten, [[a[0], a[1], {fa[-1][0]: 1}], [b[0], b[1], {fb[0][0]: 1}]], h0, 1, 1]
        # long lists: page counts up to where the list no longer fits one length byte (the (6) form ends at 255 bytes, the (10)
        # form carries two-byte lengths: up to 2100 pages ~ 64 KiB)
        counts = (3, 5, 6, 7, 8, 9, 12, 13, 14, 16, 24, 40, 200) if ten else (3, 5, 6, 7)
        for n in counts:
            pages = [[keys[i % len(keys)][0], keys[i % len(keys)][1], {R.MODE_PAGES[keys[i % len(keys)]][0][0][0]: 1}] for i in range(n)]
            yield ["mode", ten, pages, h0, 1, 0]
            big = max(keys, key=lambda kk: R.MODE_PAGES[kk][1])
            yield ["mode", ten, [[big[0], big[1], {R.MODE_PAGES[big][0][0][0]: 1}] for _ in range(n)], h0, 1, 0]
    elif part[0] == "prout_keys":
        for sa in range(9):
            for vals in c04.field_points(P.PR_BASIC[:2], max(k, 2)):
                if sa == 7:
                    yield ["prout", sa, dict(vals, relative_target_port_id=1), [0]]
                else:
                    yield ["prout", sa, vals, []]
            for flags in itertools.product((0, 1), repeat=2):
                if sa == 7:
                    # one parameter dictionary kept by the caller for REGISTER and for REGISTER AND MOVE: the basic-list flags ride along
                    for extra in ({"all_tg_pt": 1}, {"spec_i_pt": 1}, {"all_tg_pt": 1, "spec_i_pt": 1}):
                        yield ["prout", sa, dict({"reservation_key": 1, "service_action_reservation_key": 2, "unreg": flags[0], "aptpl": flags[1],
                                                  "relative_target_port_id": 2}, **extra), [3]]
                        yield ["prout", sa, dict({"reservation_key": 1, "service_action_reservation_key": 2, "unreg": flags[0], "aptpl": flags[1],
                                                  "relative_target_port_id": 2}, **extra), []]
                    for rtpi in (0, 1, 0x8000, 0xFFFF):
                        yield ["prout", sa, {"reservation_key": 1, "service_action_reservation_key": 2, "unreg": flags[0], "aptpl": flags[1],
                                             "relative_target_port_id": rtpi}, [3]]
                        yield ["prout", sa, {"reservation_key": 1, "service_action_reservation_key": 2, "unreg": flags[0], "aptpl": flags[1],
                                             "relative_target_port_id": rtpi}, []]
                else:
                    yield ["prout", sa, {"reservation_key": 1, "service_action_reservation_key": 2, "all_tg_pt": flags[0], "aptpl": flags[1]}, []]
    elif part[0] == "prout_tids":
        n = len(c04.TIDS)
        for cnt in range(0, 4):
            for combo in itertools.product(range(n), repeat=cnt):
                for flags in ((0, 0), (1, 1)):
                    yield ["prout", 0, {"reservation_key": 0x11, "service_action_reservation_key": 0x22, "spec_i_pt": 1, "all_tg_pt": flags[0],
                                        "aptpl": flags[1]}, list(combo)]
        for i in range(n):
            yield ["prout", 7, {"reservation_key": 5, "service_action_reservation_key": 6, "relative_target_port_id": 2}, [i]]
    elif part[0] == "prout_iscsi":
        for ln in range(1, 27):
            for fmt in (0, 1):
                t = ["iscsi", ln, fmt]
                yield ["prout", 0, {"reservation_key": 1, "spec_i_pt": 1}, [t]]
                yield ["prout", 0, {"reservation_key": 1, "spec_i_pt": 1}, [t, 5, t]]
                yield ["prout", 7, {"reservation_key": 1, "relative_target_port_id": 3}, [t]]
    else:
        ver = part[1]
        if ver == 4:
            hfields = [f for f in P.LID1 if f[0] in ("list_identifier", "str", "nrcr", "priority")]
        else:
            hfields = [f for f in P.LID4 if f[0] in ("str", "list_id_usage", "priority", "g_sense", "immed", "list_identifier")]
        ren = {"str": "sequential_striped"}
        for vals in c04.field_points(hfields, max(k, 2)):
            yield ["xcopy", ver, {ren.get(a, a): b for a, b in vals.items()}, [0], [2], 0]
        ncs = len(DESIGS) * len(DEVTYPES)
        for i in range(ncs, 4 * ncs):
            yield ["xcopy", ver, {}, [i], [], 0]
        for i in range(ncs):
            yield ["xcopy", ver, {}, [i], [], 0]
            yield ["xcopy", ver, {}, [i, (i + 7) % ncs], [2], 1]
        for cnt in range(0, 4):
            for combo in itertools.product(range(0, ncs, 9), repeat=cnt):
                yield ["xcopy", ver, {"priority": 1}, list(combo), [], 5 if cnt % 2 else 0]
        nseg = len(SEGS) * 2
        for i in range(nseg):
            for inl in (0, 1, 5):
                yield ["xcopy", ver, {}, [0, 1], [i], inl]
        for cnt in (2, 3):
            for combo in itertools.product(range(nseg), repeat=cnt):
                if cnt == 3 and (combo[0] + combo[1] + combo[2]) % 4:
                    continue
                yield ["xcopy", ver, {}, [0], list(combo), 0]
        yield ["xcopy", ver, {}, [], [], 0]
        yield ["xcopy", ver, {}, [], [], 5]
        for a in SEG_SIZE_CODES:
            for b2 in SEG_SIZE_CODES:
                yield ["xreuse", ver, a, b2]


NCHUNK = 4


def run_partition(part, tier, seed):
    acc = Acc(seed)
    part, chunk = part
    if part[0] == "limits":
        for (ver, which, n) in LIMIT_CASES:
            case = ["limits", ver, which, n]
            acc.case(case, nontrivial=True, key=repr(case))
            try:
                v = run_limits(ver, which, n)
            except Exception:
                import traceback
                v = [("harness_error", traceback.format_exc()[-600:])]
            for k, w in v:
                acc.violation(k, w, case)
            acc.outcome((repr(case), tuple(k for k, _ in v)))
        return acc
    if part[0] == "shared_threads":
        # two threads build EXTENDED COPY commands from ONE set of caller dictionaries (a job template handed to two workers): all
        # schedules with one preemption at every source line; each thread's CDB and parameter list are what it builds alone
        # (scheduler and bodies shared with C09)
        from vf.props import c09
        name = "ExtendedCopy%d@shared" % part[1]
        c09.run_schedules([name, name], 1, None, acc, "line")
        return acc
    prev = None
    anchor = None
    for n, case in enumerate(gen(part, tier)):
        if n % NCHUNK != chunk:
            continue
        obs = []
        try:
            v = run_case(case, obs)
        except Exception:
            import traceback
            v = [("harness_error/%s" % case[0], traceback.format_exc()[-700:])]
        # the previously built command must still carry its own list and CDB (no buffer shared between commands)
        if prev is not None and (bytes(prev[0].dataout) != prev[1] or bytes(prev[0].cdb) != prev[2]):
            v.append(("%s/earlier_command_changed" % case[0], "building %r changed the data-out or CDB of the command built before it" % (case,)))
        prev = (obs[1], obs[0], bytes(obs[1].cdb)) if len(obs) > 1 else None
        acc.case(case, nontrivial=True, key=repr(case))
        for kk, w in v:
            acc.violation(kk, w, case)
        acc.outcome((obs[0] if obs else None, tuple(x for x, _ in v)))
        # anchor: the first case of the partition is built again every 150 cases and must give the very same bytes (nothing a later
        # build leaves behind - a cache, a grown table, a shared buffer - may change what the same inputs produce)
        if anchor is None and obs and not v:
            anchor = (case, obs[0])
        elif anchor is not None and n % 150 == 0:
            o2 = []
            try:
                v2 = run_case(anchor[0], o2)
            except Exception as e:   # noqa: BLE001
                v2, o2 = [("anchor", str(e))], [None]
            if v2 or not o2 or o2[0] != anchor[1]:
                acc.violation("%s/depends_on_history" % anchor[0][0], "building %r again after %d other builds gives a different result (%s)"
                              % (anchor[0], n, v2[:1] or "bytes differ"), anchor[0])
    return acc
