"""C06 - parameter data survives a build/parse round trip and read-modify-write."""
import copy
import itertools

from vf.props import c04
from vf.runner import Acc
from vf.spec import bits
from vf.spec import responses as R

ID = "C06"
OPT_QUICK_ALL = True      # every partition also in a child interpreter started with -O
LEVEL = "exploration"
TECHNIQUE = "deviation-bounded exhaustive enumeration of value dictionaries and of canonical byte strings (independent encoders); both round-trip directions and single-field read-modify-write are compared bit for bit with whole-buffer integer deposit"
RULE = ("save / re-read / restore: 8 methods, the response read first rebuilt from the dictionary obtained then after the same command object or the next call decoded another response; classes derived from Inquiry that override one designator helper (delegating): parse + rebuild of Device Identification pages goes through the override as often as the base class goes through its own; structures with both directions: standard INQUIRY, VPD 80h/83h/86h/B2h/B3h, designators (9 kinds, NAA 2/3/5/6, EUI-64 8/12/16), mode "
        "parameter lists 6/10 (4 pages), READ CAPACITY 10/16, GET LBA STATUS, REPORT LUNS, REPORT TARGET PORT GROUPS, REPORT PRIORITY, READ ELEMENT "
        "STATUS, TransportIDs. (a) canonical bytes b from the independent encoders: marshall(unmarshall(b)) == b; (b) unmarshall(marshall(d)) "
        "contains d for d = unmarshall(b); (c) for every field f of every fixed-layout structure and mode page and every alphabet value v: "
        "parse b, set f=v, rebuild, result == deposit(b, f, v) (only f's bits change), from the all-zero and the all-ones baseline. Values: every "
        "field over its alphabet, k deviations (k=1 quick, 2 thorough); lists with 0..3 entries; every rebuild also from the parsed object itself (twice) and with all dictionaries in the opposite key order; mode data with 8/16 (LONGLBA=1: 16/32) bytes of block descriptors in front of the page: read, change one field, write back, page part compared; tools/swp.py as shipped (--on / --off / show) against a simulated disk on both transports for every Control-page field over its alphabet, with and without a block descriptor: the list written back is the device's page with only SWP changed. Non-trivial = any non-zero field or entry.")
ASSUMPTIONS = [
    "canonical = what a device returns when the library's vocabulary can express all of it: 96-byte standard INQUIRY data, mode data without block descriptors (DBD=1) and one page, reserved and vendor bytes zero, minimal NUL padding of iSCSI names",
    "oracle: vf/spec/responses.py encoders and vf/spec/bits.py deposit; field positions as in DESIGN.md Appendix B",
    "excluded: PCIe routing-id designator, SOP TransportIDs, ATA Information page (no builder in the library)",
]


def bounds(tier):
    return {"k": 1 if tier == "quick" else 2}


L = c04.lib


def codecs():
    """name -> (unmarshall(bytes)->dict, marshall(dict)->bytes)"""
    Inq = L("Inquiry")
    return {
        "inquiry_std": (lambda b: Inq.unmarshall_datain(b, evpd=0), Inq.marshall_datain),
        "vpd": (lambda b: Inq.unmarshall_datain(b, evpd=1), Inq.marshall_datain),
        "mode6": (L("ModeSense6").unmarshall_datain, L("ModeSense6").marshall_datain),
        "mode10": (L("ModeSense10").unmarshall_datain, L("ModeSense10").marshall_datain),
        "readcap10": (L("ReadCapacity10").unmarshall_datain, L("ReadCapacity10").marshall_datain),
        "readcap16": (L("ReadCapacity16").unmarshall_datain, L("ReadCapacity16").marshall_datain),
        "getlbastatus": (L("GetLBAStatus").unmarshall_datain, L("GetLBAStatus").marshall_datain),
        "reportluns": (L("ReportLuns").unmarshall_datain, L("ReportLuns").marshall_datain),
        "rtpg": (L("ReportTargetPortGroups").unmarshall_datain, L("ReportTargetPortGroups").marshall_datain),
        "reportpriority": (L("ReportPriority").unmarshall_datain, L("ReportPriority").marshall_datain),
        "res": (L("ReadElementStatus").unmarshall_datain, L("ReadElementStatus").marshall_datain),
        "transportid": (L("PRFull").unmarshall_transport_id, L("PRFull").marshall_transport_id),
    }


def contains(d, e, path=""):
    """first path where dict e (expected subset) is not contained in d, else None"""
    if isinstance(e, dict):
        if not isinstance(d, dict):
            return path or "result"
        for k, v in e.items():
            if k not in d:
                return "%s.%s" % (path, k)
            r = contains(d[k], v, "%s.%s" % (path, k))
            if r:
                return r
        return None
    if isinstance(e, (list, tuple)):
        if not isinstance(d, (list, tuple)) or len(d) != len(e):
            return path + "[count]"
        for a, b in zip(d, e):
            r = contains(a, b, path + "[]")
            if r:
                return r
        return None
    if isinstance(e, (bytes, bytearray)):
        return None if isinstance(d, (bytes, bytearray)) and bytes(d) == bytes(e) else path
    return None if d == e else path


def reorder(x):
    """the same values in dictionaries filled in the opposite key order (a caller assembling the dictionary by hand)"""
    if isinstance(x, dict):
        return {k: reorder(v) for k, v in reversed(list(x.items()))}
    if isinstance(x, list):
        return [reorder(v) for v in x]
    return x


def roundtrip(codec, b, tag):
    """directions (a) and (b) on canonical bytes b"""
    un, ma = codecs()[codec]
    out = []
    try:
        d = un(bytearray(b))
    except Exception as e:   # noqa: BLE001
        return [("%s/parse_raises" % tag, "%s: parsing %s raised %s: %s" % (tag, b[:24].hex(), type(e).__name__, e))], None
    try:
        b2 = ma(copy.deepcopy(d))
        b2 = bytes(b2)
        # ... and from the very object the parser returned, twice over: the caller still holds it after the first build
        b3 = [bytes(ma(d)), bytes(ma(d))]
    except Exception as e:   # noqa: BLE001
        return [("%s/build_raises" % tag, "%s: rebuilding the parsed response raised %s: %s" % (tag, type(e).__name__, e))], d
    try:
        b4 = bytes(ma(reorder(copy.deepcopy(d))))
    except Exception as e:   # noqa: BLE001
        b4 = ("raised %s: %s" % (type(e).__name__, e)).encode()
    if b4 != b2:
        out.append(("%s/key_order" % tag, "%s: the same values in dictionaries filled in the opposite key order build %s, in parser order %s"
                    % (tag, b4[:48].hex() if not b4.startswith(b"raised") else b4.decode(), b2[:48].hex())))
        return out, d
    for n_, bb in enumerate(b3):
        if bb != b2:
            out.append(("%s/rebuild_differs" % tag, "%s: build number %d from the same parsed values gives %s, the first gave %s" % (tag, n_ + 2, bb[:48].hex(), b2[:48].hex())))
            return out, d
    if b2 != bytes(b):
        i = next((i for i in range(min(len(b), len(b2))) if b[i] != b2[i]), min(len(b), len(b2)))
        out.append(("%s/bytes_differ" % tag, "%s: rebuilt response differs at byte %d (%d vs %d bytes): device %s rebuilt %s"
                    % (tag, i, len(b), len(b2), bytes(b)[max(0, i - 4):i + 8].hex(), b2[max(0, i - 4):i + 8].hex())))
        return out, d
    try:
        d2 = un(bytearray(b2))
        where = contains(d2, d)
        if where:
            out.append(("%s/values_lost" % tag, "%s: parse(build(d)) lost %s" % (tag, where)))
    except Exception as e:   # noqa: BLE001
        out.append(("%s/reparse_raises" % tag, "%s: %s" % (tag, e)))
    return out, d


def rmw(codec, b, fields, offset, where_fn, tag, k):
    """(c) read-modify-write of every field: only that field's bits may change"""
    un, ma = codecs()[codec]
    out = []
    for (f, byte, msb, w) in fields:
        for v in bits.alphabet(w):
            d = un(bytearray(b))
            tgt = where_fn(d)
            if f not in tgt:
                out.append(("%s/%s/not_parsed" % (tag, f), "%s: field %s missing after parsing" % (tag, f)))
                break
            tgt[f] = v
            try:
                b2 = bytes(ma(d))
            except Exception as e:   # noqa: BLE001
                out.append(("%s/%s/build_raises" % (tag, f), "%s: setting %s=%#x then rebuilding raised %s: %s" % (tag, f, v, type(e).__name__, e)))
                break
            want = bits.deposit(b, byte + offset, msb, w, v)
            if b2 != want:
                out.append(("%s/%s/rmw" % (tag, f), "%s: set %s=%#x: rebuilt %s, expected only that field to change: %s" % (tag, f, v, b2[:40].hex(), want[:40].hex())))
                break
    return out


# ---------------------------------------------------------------------------------------------------------
def run_case(case, obs=None):
    kind = case[0]
    if kind == "subclass":
        return run_subclass(case[1], case[2])
    if kind == "reread":
        return run_reread(case[1], case[2])
    if kind == "long_designator":
        return run_long_designator(case[1], case[2])
    if kind == "rp_rmw":
        return run_rp_rmw(case[1], case[2])
    if kind == "fixed":
        _, fmt, vals, do_rmw = case
        if fmt == "inquiry_std":
            b = R.std_inquiry(vals, {"t10_vendor_identification": c04.BLOB_A[:8], "product_identification": c04.BLOB_A[:16],
                                     "product_revision_level": c04.BLOB_A[:4]})
            codec, fields, off = "inquiry_std", [f for f in R.STD_INQUIRY], 0
        elif fmt.startswith("vpd"):
            page = int(fmt[3:], 16)
            b = R.vpd_fixed(page, vals)
            codec, fields, off = "vpd", R.VPD_FIXED[page][0] + [f for f in R.PERIPHERAL], 0
        elif fmt == "readcap10":
            b = R.put(bytes(8), R.READCAP10, vals)
            codec, fields, off = fmt, R.READCAP10, 0
        elif fmt == "readcap16":
            b = R.put(bytes(32), R.READCAP16, vals)
            codec, fields, off = fmt, R.READCAP16, 0
        else:
            raise ValueError(fmt)
        if obs is not None:
            obs.append(b)
        out, d = roundtrip(codec, b, fmt)
        if do_rmw and not out:
            flds = [f for f in fields if f[0] != "additional_length"]
            out += rmw(codec, b, flds, off, lambda d: d, fmt, 1)
        return out
    if kind == "mode":
        _, ten, page, sub, vals, hdr, do_rmw = case
        b = R.mode_data(ten, hdr, b"", [R.mode_page(page, sub, vals)])
        tag = "mode%s/page%02x%s" % ("10" if ten else "6", page, "" if sub is None else "_%02x" % sub)
        codec = "mode10" if ten else "mode6"
        if obs is not None:
            obs.append(b)
        out, d = roundtrip(codec, b, tag)
        if do_rmw and not out:
            fields, _ = R.MODE_PAGES[(page, sub)]
            off = (8 if ten else 4) + (2 if sub is None else 4)
            out += rmw(codec, b, fields, off, lambda d: d["mode_pages"][0], tag, 1)
            out += rmw(codec, b, R.MODE_HDR10 if ten else R.MODE_HDR6, 0, lambda d: d, tag + "/header", 1)
        if do_rmw and not out:
            # the same answer with block descriptors in front of the page (8 bytes each; 16 bytes each with LONGLBA=1): the library does
            # not carry block descriptors through a rebuild, so only the PAGE part is compared - read, change one field, write back
            un, ma = codecs()[codec]
            page_b = R.mode_page(page, sub, vals)
            fields, _ = R.MODE_PAGES[(page, sub)]
            for longlba, bd in ((0, bytes(range(1, 9))), (0, bytes(range(1, 17)))) + (((1, bytes(range(0x21, 0x31))), (1, bytes(range(0x21, 0x41)))) if ten else ()):
                h2 = dict(hdr)
                if ten:
                    h2["longlba"] = longlba
                b2 = R.mode_data(ten, h2, bd, [page_b])
                where = "%s with %d bytes of block descriptors%s" % (tag, len(bd), ", LONGLBA=1" if longlba else "")
                try:
                    d = un(bytearray(b2))
                    f0 = fields[0]
                    if d["mode_pages"][0].get(f0[0]) != vals.get(f0[0], 0):
                        out.append(("%s/blockdesc/parse" % tag, "%s: page field %s parsed as %r, the answer carries %r" % (where, f0[0], d["mode_pages"][0].get(f0[0]), vals.get(f0[0], 0))))
                        continue
                    newv = (vals.get(f0[0], 0) ^ 1) & ((1 << f0[3]) - 1)
                    d["mode_pages"][0][f0[0]] = newv
                    rebuilt = bytes(ma(d))
                    want_page = bits.deposit(page_b, f0[1] + (2 if sub is None else 4), f0[2], f0[3], newv)
                    if not rebuilt.endswith(want_page):
                        out.append(("%s/blockdesc/rmw" % tag, "%s: after changing %s the rebuilt list ends with %s, expected the page %s" % (where, f0[0], rebuilt[-len(want_page):].hex(), want_page.hex())))
                except Exception as e:   # noqa: BLE001
                    out.append(("%s/blockdesc/raises" % tag, "%s: %s: %s" % (where, type(e).__name__, e)))
        return out
    if kind == "bytes":
        _, codec, tag, c04case = case
        _, b, _, _ = c04.build(c04case)
        if obs is not None:
            obs.append(b)
        return roundtrip(codec, b, tag)[0]
    if kind == "tid":
        _, idx = case
        t = c04.TIDS[idx] if isinstance(idx, int) else {"protocol_id": 5, "iscsi_name": "iqn.2000-01.verif:abcdefghijklmnopqrstuvwxyz"[:idx[1]] if idx[1] > 4 else "abcd"[:idx[1]]}
        if not isinstance(idx, int) and idx[2]:
            t = dict(t, tpid_format=1, iscsi_initiator_session_id="00023d000001")
        b = R.transport_id(t)
        if obs is not None:
            obs.append(b)
        out, d = roundtrip("transportid", b, "transportid/p%d" % t["protocol_id"])
        # direction (b) from the caller's dictionary
        un, ma = codecs()["transportid"]
        try:
            d2 = un(bytearray(ma(copy.deepcopy(t))))
            w = contains(d2, {k: (v if not isinstance(v, (bytes, bytearray)) else bytes(v)) for k, v in t.items()})
            if w:
                out.append(("transportid/p%d/values_lost" % t["protocol_id"], "TransportID %r: parse(build(d)) lost %s" % (t, w)))
        except Exception as e:   # noqa: BLE001
            out.append(("transportid/p%d/raises" % t["protocol_id"], "TransportID %r: %s: %s" % (t, type(e).__name__, e)))
        return out
    raise ValueError(kind)


def run_tool_swp(case):
    """tools/swp.py as shipped, run against a simulated disk: read the Control mode page, set / clear SWP, write it back.
    The list that reaches the device must be the page it sent with only the SWP bit changed."""
    import contextlib
    import io
    import os
    import runpy
    import sys

    from vf import harness
    from vf.sim import install, registry
    from vf.spec import paramlists as P
    _, tr, flag, vals, bdlen = case
    install.ensure()
    fields, _ = R.MODE_PAGES[(0x0A, None)]
    page = R.mode_page(0x0A, None, vals)
    answer = R.mode_data(False, {"medium_type": 0, "device_specific_parameter": 0x10}, bytes(range(1, 1 + bdlen)), [page])
    rig = harness.Rig(tr, 0x00)
    seen = []
    orig = rig.target.command

    def command(cdb, dataout, datain, transport):
        if cdb[0] == 0x1A:
            rig.target.log.append({"cdb": bytes(cdb)})
            n = min(len(answer), len(datain))
            datain[:n] = answer[:n]
            rig.target.log[-1]["transferred"] = n
            return 0x00, None
        if cdb[0] == 0x15:
            seen.append((bytes(cdb), bytes(dataout)))
            rig.target.log.append({"cdb": bytes(cdb)})
            return 0x00, None
        return orig(cdb, dataout, datain, transport)
    rig.target.command = command
    path = rig.node.path if tr == "sgio" else "iscsi://portal:3260/%s/0" % rig.key[1]
    script = os.path.join(os.environ.get("VF_REPO", "/repo"), "tools", "swp.py")
    argv0 = sys.argv[:]
    registry.privileged = True        # (the tool opens the node read-only and is meant to be run by root)
    out = []
    sink = io.StringIO()
    try:
        sys.argv = [script] + ([flag] if flag else []) + [path]
        with contextlib.redirect_stdout(sink):
            runpy.run_path(script, run_name="__main__")
    except SystemExit:
        pass
    except Exception as e:   # noqa: BLE001
        out.append(("tool_swp/raises", "tools/swp.py %s over %s raised %s: %s" % (flag, tr, type(e).__name__, e)))
    finally:
        sys.argv = argv0
        registry.privileged = False
        rig.close()
    where = "tools/swp.py %s over %s, device page %s, %d bytes of block descriptors" % (flag or "(show)", tr, page.hex(), bdlen)
    if out:
        return out
    text = sink.getvalue()
    swp0 = vals.get("swp", 0)
    if not flag:
        if ("ON" in text) != bool(swp0) or seen:
            out.append(("tool_swp/show", "%s: printed %r, the device has SWP=%d (%d lists written)" % (where, text.strip(), swp0, len(seen))))
        return out
    if len(seen) != 1:
        out.append(("tool_swp/writes", "%s: %d MODE SELECT commands reached the device" % (where, len(seen))))
        return out
    cdb, lst = seen[0]
    h, pgs, problems = P.mode_list(lst, False)
    for pr in problems:
        out.append(("tool_swp/list", "%s: %s (list %s)" % (where, pr, lst.hex())))
    want = dict(vals, swp=1 if flag == "--on" else 0)
    if len(pgs) != 1:
        out.append(("tool_swp/pages", "%s: %d pages written" % (where, len(pgs))))
    else:
        for (f, _, _, _) in fields:
            if pgs[0].get(f) != want.get(f, 0):
                out.append(("tool_swp/field/%s" % f, "%s: the list written back carries %s=%r, expected %r (only SWP may change)" % (where, f, pgs[0].get(f), want.get(f, 0))))
    if cdb[4] != len(lst):
        out.append(("tool_swp/pll", "%s: PARAMETER LIST LENGTH %d, list of %d bytes" % (where, cdb[4], len(lst))))
    return out


def replay(case):
    case = c04._unjson(case)
    return run_tool_swp(case) if case[0] == "tool_swp" else run_case(case)


def partitions(tier):
    return [[n, c] for n in ("inquiry_std", "vpd86", "vpdb2", "vpdb3", "readcap", "mode6", "mode10", "vpd_lists", "vpd83", "getlbastatus", "reportluns", "rtpg",
                          "reportpriority", "res", "tid") for c in range(NCHUNK)] + [["tool_swp", 0], ["subclass", 0]]


def gen(part, tier):
    k = bounds(tier)["k"]
    name = part[0]
    if name == "inquiry_std":
        first = True
        for vals in c04.field_points(R.STD_INQUIRY, k, fixed=("additional_length",)):
            yield ["fixed", "inquiry_std", vals, first or sum(1 for v in vals.values() if v) in (0, len(vals))]
            first = False
    elif name in ("vpd86", "vpdb2", "vpdb3"):
        page = int(name[3:], 16)
        flds = R.VPD_FIXED[page][0]
        for vals in c04.field_points(flds, k):
            n = sum(1 for v in vals.values() if v)
            yield ["fixed", name, vals, n in (0, len(vals)) or all(v in (0, (1 << R.width_of(flds, kk)) - 1) for kk, v in vals.items()) and n == len(vals)]
    elif name == "readcap":
        for fmt, flds in (("readcap10", R.READCAP10), ("readcap16", R.READCAP16)):
            for vals in c04.field_points(flds, max(k, 2) if fmt == "readcap10" else k):
                n = sum(1 for v in vals.values() if v)
                yield ["fixed", fmt, vals, n in (0, len(vals))]
    elif name in ("mode6", "mode10"):
        ten = name == "mode10"
        h0 = {"medium_type": 0, "device_specific_parameter": 0}
        if ten:
            h0["longlba"] = 0
        hdrs = [h0, dict(h0, medium_type=0xFF, device_specific_parameter=0x91)]
        for (page, sub), (fields, _) in R.MODE_PAGES.items():
            for vals in c04.field_points(fields, k):
                n = sum(1 for v in vals.values() if v)
                allmax = all(v == (1 << R.width_of(fields, kk)) - 1 for kk, v in vals.items())
                yield ["mode", ten, page, sub, vals, hdrs[0], n == 0 or allmax]
            yield ["mode", ten, page, sub, {fields[0][0]: 1}, hdrs[1], True]
    else:
        tagmap = {"vpd_lists": ("vpd", None), "vpd83": ("vpd", "vpd83"), "getlbastatus": ("getlbastatus", None), "reportluns": ("reportluns", None),
                  "rtpg": ("rtpg", None), "reportpriority": ("reportpriority", None), "res": ("res", None)}
        if name == "tid":
            for i in range(len(c04.TIDS)):
                yield ["tid", i]
            for ln in range(1, 27):
                for fmt in (0, 1):
                    yield ["tid", ["iscsi", ln, fmt]]
            return
        codec, _ = tagmap[name]
        for c in c04.gen([name], tier):
            # canonical responses only: no trailing buffer space; vpd00 has no builder in the library
            if c[0] == "vpd00":
                continue
            if c[0] in ("vpd80", "vpd83") and c[2] != 0:          # (these carry an optional content variant after the tail)
                continue
            if c[0] in ("getlbastatus", "reportluns", "reportpriority") and c[-1] != 0:
                continue
            if c[0] == "rtpg" and c[-1] != 0:
                continue
            if c[0] == "res" and c[-1] != 0:
                continue
            tag = c[0]
            if c[0] == "vpd83" and len(c[1]) == 1:
                h, d = c04.DESIGNATORS[c[1][0]]
                tag = "vpd83/designator%d%s" % (h["designator_type"], ("_naa%d" % d["naa"]) if "naa" in d else ("_%d" % len(R.designator_bytes(2, d))) if h["designator_type"] == 2 else "")
            if c[0] == "res":
                tag = "res/pvoltag%d_avoltag%d" % (c[3][0][1], c[3][0][2]) if c[3] else "res"
            if c[0] == "rtpg":
                tag = "rtpg_ext" if c[2] else "rtpg"
            yield ["bytes", codec, tag, c]


REREAD_METHODS = ("inquiry", "readcapacity10", "readcapacity16", "reportluns", "modesense6", "modesense10", "getlbastatus", "readelementstatus")


def run_reread(method, how):
    """save / change / verify / restore: the response parsed FIRST through a command object is rebuilt from the dictionary obtained then,
    after the same command object (or the next command of the facade) has parsed another response: the bytes of the first response"""
    import pyscsi.pyscsi.scsi_enum_command as E
    from pyscsi.pyscsi.scsi import SCSI
    from vf import facade as F
    from vf.props import c13
    name, key, args = F.FACADE[method]
    st = F.sets_offering(method)[0]
    dev = c13.RecDev(getattr(E, st))
    s = SCSI(dev, 512)
    dev.opcodes = getattr(E, st)
    x1, x2 = c13.response_for(method, dict(args), 0), c13.response_for(method, dict(args), 1)
    if x1 is None or x1 == x2:
        return []
    dev.response = x1
    a = F.call(s, method)
    saved = a.result
    cls = type(a)
    if not hasattr(cls, "marshall_datain"):
        return []
    try:
        before = bytes(cls.marshall_datain(saved))
    except Exception:   # noqa: BLE001 - no builder for this structure / content
        return []
    dk = c13.decoder_kwargs(method, dict(args))
    if how == "again":
        n = min(len(x2), len(a.datain))
        a.datain[:n] = x2[:n]
        a.unmarshall(**dk)
    else:
        dev.response = x2
        F.call(s, method)
    try:
        after = bytes(cls.marshall_datain(saved))
    except Exception as e:   # noqa: BLE001
        return [("reread/raises/%s" % method, "%s: rebuilding the response read first raised %s after a re-read: %s" % (method, type(e).__name__, e))]
    if after != before:
        return [("reread/saved_result_changed/%s" % method, "%s: the response read first rebuilds to %s..., after %s it rebuilds to %s... (restore would write the NEW state)"
                 % (method, before[:16].hex(), "the same command object was re-submitted and decoded again" if how == "again" else "another call of the method", after[:16].hex()))]
    return []


def run_long_designator(n, dtype):
    """a designator whose size reaches or passes the width of its 8-bit DESIGNATOR LENGTH (254 .. 260 bytes): the page is refused, or
    it is built with the honest length and parses back to what it was built from"""
    Inq = c04.lib("Inquiry")
    des = {"scsi_name_string": bytes([0x41 + (i % 26) for i in range(n)])} if dtype == 8 else {"vendor_specific": bytes([i & 0xFF for i in range(n)])}
    data = {"peripheral_qualifier": 0, "peripheral_device_type": 0, "page_code": 0x83,
            "designator_descriptors": [{"piv": 0, "code_set": 3 if dtype == 8 else 1, "protocol_identifier": 0, "association": 0, "designator_type": dtype, "designator": des},
                                       {"piv": 0, "code_set": 1, "protocol_identifier": 0, "association": 1, "designator_type": 4, "designator": {"relative_port": 7}}]}
    try:
        b = bytes(Inq.marshall_datain(data))
    except Exception:   # noqa: BLE001 - refused
        return []
    where = "VPD 83h with a %d-byte designator of type %d" % (n, dtype)
    if b[7] != n or len(b) != 4 + 4 + n + 8 or int.from_bytes(b[2:4], "big") != len(b) - 4:
        return [("long_designator/length", "%s: built without complaint; DESIGNATOR LENGTH says %d, PAGE LENGTH %d, %d bytes in all" % (where, b[7], int.from_bytes(b[2:4], "big"), len(b)))]
    d = Inq.unmarshall_datain(bytearray(b), evpd=1)
    got = [x.get("designator_type") for x in d.get("designator_descriptors", [])]
    if got != [dtype, 4]:
        return [("long_designator/roundtrip", "%s: parses back as designators of types %r" % (where, got))]
    return []


def run_rp_rmw(i, j):
    """REPORT PRIORITY parsed, the TransportID blob of one descriptor replaced by one of ANOTHER length (read-modify-write), built
    again: the list parses back to the descriptors with the new TransportID; lengths are derived from what is emitted"""
    RP = c04.lib("ReportPriority")
    t1, t2 = R.transport_id(c04.TIDS[i]), R.transport_id(c04.TIDS[j])
    if len(t1) == len(t2):
        return []
    x = R.report_priority([({"current_priority": 3, "rtpi": 2}, t1), ({"current_priority": 5, "rtpi": 7}, t1)])
    d = RP.unmarshall_datain(bytearray(x))
    d["priority_descriptors"][0]["transport_id"] = bytearray(t2)
    want = R.report_priority([({"current_priority": 3, "rtpi": 2}, t2), ({"current_priority": 5, "rtpi": 7}, t1)])
    try:
        got = bytes(RP.marshall_datain(d))
    except Exception as e:   # noqa: BLE001
        return [("rp_rmw/raises", "REPORT PRIORITY rebuilt after a TransportID of %d bytes was replaced by one of %d: raised %s: %s" % (len(t1), len(t2), type(e).__name__, e))]
    if got != want:
        return [("rp_rmw/bytes", "REPORT PRIORITY rebuilt after the TransportID of its first descriptor (%d bytes) was replaced by one of %d bytes: %s..., expected %s..."
                 % (len(t1), len(t2), got[:16].hex(), want[:16].hex()))]
    return []


NCHUNK = 3


def run_subclass(helper, idxs):
    """a class derived from Inquiry that overrides one designator helper (delegating to the inherited code): parsing a Device
    Identification page with the derived class and building it again goes through the override as often as the base class goes
    through its own helper, and gives the same bytes"""
    from vf import harness
    Inquiry = c04.lib("Inquiry")
    x = R.vpd_83([c04.DESIGNATORS[i] for i in idxs])
    # how often does the base class use the helper for this page?
    probe, base_calls = harness.override_probe(Inquiry, helper)
    base_fn = getattr(Inquiry, helper).__func__
    counted = [0]

    def counting(klass, *a, **k):
        counted[0] += 1
        return base_fn(klass, *a, **k)
    saved = Inquiry.__dict__[helper]
    setattr(Inquiry, helper, classmethod(counting))
    try:
        ref = bytes(Inquiry.marshall_datain(Inquiry.unmarshall_datain(bytearray(x), evpd=1)))
    finally:
        setattr(Inquiry, helper, saved)
    want_calls = counted[0]
    try:
        got = bytes(probe.marshall_datain(probe.unmarshall_datain(bytearray(x), evpd=1)))
    except Exception as e:   # noqa: BLE001
        return [("subclass/raises/%s" % helper, "a class derived from Inquiry overriding %s (delegating): parse + rebuild of a page with designators %r raised %s: %s" % (helper, idxs, type(e).__name__, e))]
    out = []
    if got != ref:
        out.append(("subclass/bytes/%s" % helper, "a class derived from Inquiry overriding %s (delegating): rebuilt page differs from what Inquiry itself rebuilds" % helper))
    if base_calls[0] != want_calls:
        out.append(("subclass/override_bypassed/%s" % helper, "a class derived from Inquiry overriding %s: parse + rebuild of a page with designators %r went through the override %d times, "
                    "Inquiry goes through its own helper %d times" % (helper, idxs, base_calls[0], want_calls)))
    return out


def run_partition(part, tier, seed):
    acc = Acc(seed)
    if part[0] == "subclass":
        for i in range(len(c04.TIDS)):
            for j in range(len(c04.TIDS)):
                case = ["rp_rmw", i, j]
                acc.case(case, nontrivial=True, key=repr(case))
                try:
                    v = run_rp_rmw(i, j)
                except Exception:
                    import traceback
                    v = [("harness_error", traceback.format_exc()[-600:])]
                for k, w in v:
                    acc.violation(k, w, case)
                acc.outcome((repr(case), tuple(k for k, _ in v)))
        for n in (250, 254, 255, 256, 257, 260, 511, 512):
            for dtype in (8, 0):
                case = ["long_designator", n, dtype]
                acc.case(case, nontrivial=True, key=repr(case))
                try:
                    v = run_long_designator(n, dtype)
                except Exception:
                    import traceback
                    v = [("harness_error", traceback.format_exc()[-600:])]
                for k, w in v:
                    acc.violation(k, w, case)
                acc.outcome((repr(case), tuple(k for k, _ in v)))
        for method in REREAD_METHODS:
            for how in ("again", "next"):
                case = ["reread", method, how]
                acc.case(case, nontrivial=True, key=repr(case))
                try:
                    v = run_reread(method, how)
                except Exception:
                    import traceback
                    v = [("harness_error", traceback.format_exc()[-600:])]
                for k, w in v:
                    acc.violation(k, w, case)
                acc.outcome((repr(case), tuple(k for k, _ in v)))
        combos = [[i] for i in range(len(c04.DESIGNATORS))] + [[0, 1], [5, 9], [8, 9, 12]]
        for helper in ("marshall_designator", "unmarshall_designator", "marshall_designation_descriptor"):
            for idxs in combos:
                idxs = [i for i in idxs if i < len(c04.DESIGNATORS)]
                case = ["subclass", helper, idxs]
                acc.case(case, nontrivial=True, key=repr(case))
                try:
                    v = run_subclass(helper, idxs)
                except Exception:
                    import traceback
                    v = [("harness_error", traceback.format_exc()[-600:])]
                for k, w in v:
                    acc.violation(k, w, case)
                acc.outcome((repr(case), tuple(k for k, _ in v)))
        return acc
    if part[0] == "tool_swp":
        fields, _ = R.MODE_PAGES[(0x0A, None)]
        for tr in ("sgio", "iscsi"):
            for vals in c04.field_points(fields, 1):
                for flag in ("--on", "--off", ""):
                    for bdlen in (0, 8):
                        case = ["tool_swp", tr, flag, vals, bdlen]
                        acc.case(case, nontrivial=True, key=repr(case))
                        try:
                            v = run_tool_swp(case)
                        except Exception:
                            import traceback
                            v = [("harness_error", traceback.format_exc()[-600:])]
                        for k, w in v:
                            acc.violation(k, w, case)
                        acc.outcome((repr(case), tuple(k for k, _ in v)))
        return acc
    chunk = part[1]
    anchor = None
    for n, case in enumerate(gen(part[:1], tier)):
        if n % NCHUNK != chunk:
            continue
        obs = []
        try:
            v = run_case(case, obs)
        except Exception:
            import traceback
            v = [("harness_error/%s" % case[0], traceback.format_exc()[-700:])]
        acc.case(case, nontrivial=True, key=(case[0], obs[0]) if obs else repr(case))
        for kk, w in v:
            acc.violation(kk, w, case)
        acc.outcome((obs[0] if obs else None, tuple(x for x, _ in v)))
        # anchor: the first case of the partition is built again every 100 cases and must give the very same bytes (nothing a later
        # build leaves behind - a cache, a grown table, a shared buffer - may change what the same inputs produce)
        if anchor is None and obs and not v:
            anchor = (case, obs[0])
        elif anchor is not None and n % 100 == 0:
            o2 = []
            try:
                v2 = run_case(anchor[0], o2)
            except Exception as e:   # noqa: BLE001
                v2, o2 = [("anchor", str(e))], [None]
            if v2 or not o2 or o2[0] != anchor[1]:
                acc.violation("%s/depends_on_history" % anchor[0][0], "building %r again after %d other builds gives a different result (%s)"
                              % (anchor[0], n, v2[:1] or "bytes differ"), anchor[0])
    return acc
