"""C17 - invalid requests are refused before anything is sent."""
import itertools

from vf import cmdspace as CS
from vf import facade as F
from vf import harness
from vf.runner import Acc
from vf.sim import install
from vf.spec import cdb as S
from vf.spec import opcodes as T

ID = "C17"
LEVEL = "exploration"
TECHNIQUE = "exhaustive enumeration of the invalid-request classes (missing block size x argument tuples, all 256 opcode values, service-action integers, EXTENDED COPY key/code mutations, inconsistent TransportIDs) through constructors and through the facade over a recording target"
RULE = ("block size 0 x {READ/WRITE(10,12,16), WRITE SAME(10,16), ATA PASS-THROUGH(12,16) with byte_block & t_type & t_length} x all argument "
        "tuples with at most 1 deviation, through the constructor and through the facade on both transports, the baseline tuple also after every sequence of 1-2 other calls through the same facade (INQUIRY, TEST UNIT READY, READ CAPACITY 10/16 answered with a real block length, MODE SENSE, REPORT LUNS, block size set and reset, an earlier refused call, a second facade with a block size over the same device object); all 256 opcode values into "
        "init_cdb and three constructors; PERSISTENT RESERVE IN service actions -1..40 through the facade on the four shipped sets and on a caller-assigned set whose entry numbers them 10h-13h (known is what that entry lists); EXTENDED COPY LID1/LID4 with each "
        "unknown key in CSCD and segment descriptors, unknown / valid-unimplemented / implemented type codes, LU ID TYPE 0..3, unknown device "
        "types (as integers and as numeric text), codes given by name in the wrong field (before and after a valid use of the same names); TransportIDs over protocols x format flag x session id; opcode refusal (init_cdb, marshall_cdb, constructor) racing with a second thread that builds a valid TEST UNIT READY / READ(10) / READ(16): all schedules with at most 2 preemptions at every source line of the library. Every case also states whether it must be accepted, so that refusing "
        "valid input is reported too. Non-trivial = the request is invalid; distinct = distinct (kind, case).")
ASSUMPTIONS = [
    "the 'specific error' is identified by exception class name (the metaclass mints MissingBlocksizeException/OpcodeException per class): MissingBlocksizeException, OpcodeException, ValueError; NotImplementedError is accepted only for descriptor type codes the standard defines but the library documents as not implemented",
    "'nothing reaches the device' is observed as: the simulated target's command log does not grow during the refused call",
]
BLOCK_CLASSES = ["Read10", "Read12", "Read16", "Write10", "Write12", "Write16", "WriteSame10", "WriteSame16"]
FACADE_OF = {"Read10": "read10", "Read12": "read12", "Read16": "read16", "Write10": "write10", "Write12": "write12", "Write16": "write16",
             "WriteSame10": "writesame10", "WriteSame16": "writesame16", "ATAPassThrough12": "atapassthrough12",
             "ATAPassThrough16": "atapassthrough16"}


PRE_CALLS = ["inquiry", "testunitready", "readcapacity10", "readcapacity16", "modesense6", "reportluns", "bs4096-0", "refused", "other512", "otherset"]


def partitions(tier):
    parts = [["blocksize", n] for n in BLOCK_CLASSES + ["ATAPassThrough12", "ATAPassThrough16"]]
    parts += [["opcode"], ["prin"], ["xcopy", 4], ["xcopy", 5], ["tid"], ["none_blocksize"]]
    parts += [["race", inv, valid] for inv in RACE_INVALID for valid in RACE_VALID]
    return parts


# refusal of an opcode without a fixed CDB length while ANOTHER thread marshalls a valid command: every schedule with at most 2 preemptions
RACE_INVALID = ["init_cdb", "marshall", "ctor"]
RACE_VALID = ["TestUnitReady", "Read10", "Read16"]


def race_bodies(inv, valid):
    from pyscsi.pyscsi.scsi_command import SCSICommand
    from pyscsi.pyscsi.scsi_opcode import OpCode
    tur, cls = CS.get_class("TestUnitReady"), CS.get_class(valid)
    set_ = harness.opcode_set("sbc")
    good = {"TestUnitReady": lambda: bytes(tur(set_.TEST_UNIT_READY).cdb),
            "Read10": lambda: bytes(cls(set_.READ_10, 512, 0x01020304, 5).cdb),
            "Read16": lambda: bytes(cls(set_.READ_16, 512, 0x0102030405060708, 5).cdb)}[valid]
    bad = {"init_cdb": lambda: SCSICommand.init_cdb(OpCode("X", 0x7F, {})),
           "marshall": lambda: tur.marshall_cdb({"opcode": 0x7F}),
           "ctor": lambda: tur(OpCode("X", 0xC1, {}))}[inv]
    return [lambda: outcome_of(bad), lambda: outcome_of(good)]


def run_race(inv, valid, choices, acc=None):
    import os

    from vf import sched
    pre = os.path.join(os.environ.get("VF_REPO", "/repo"), "pyscsi") + "/"
    want_good = race_bodies(inv, valid)[1]()

    def judge(x):
        v = []
        where = "refusing an opcode through %s while another thread builds %s, switches at %r" % (
            inv, valid, [(i, x.points[i][2]) for i, c in enumerate(x.choices) if c][:4])
        if x.errors[0] is not None or x.errors[1] is not None:
            v.append(("race/harness", "%s: %r" % (where, x.errors)))
            return v
        v += expect_refusal(x.results[0], ["OpcodeException"], where, "race/%s" % inv)
        if repr(x.results[1]) != repr(want_good):
            v.append(("race/valid_disturbed/%s" % valid, "%s: the valid command came out as %r, alone %r" % (where, x.results[1], want_good)))
        return v

    if choices is not None:
        return judge(sched.Execution(race_bodies(inv, valid), choices, pre).run())

    def on_exec(x):
        case = ["race", inv, valid, list(x.choices)]
        acc.case(case, nontrivial=any(x.choices), key=(inv, valid, tuple(i for i, c in enumerate(x.choices) if c), tuple(c for c in x.choices if c)))
        acc.transitions += 1
        acc.traces += 1
        for k, w in judge(x):
            acc.violation(k, w, case)
        acc.outcome(("race", inv, valid, repr(x.results)))
    n, capped = sched.explore(lambda: race_bodies(inv, valid), pre, 2, on_exec, None, 50000)
    if capped:
        acc.caps.append("schedule cap hit for race %s/%s" % (inv, valid))
    acc.add("schedules", n)


def outcome_of(fn):
    try:
        return ("ret", fn())
    except Exception as e:   # noqa: BLE001
        return ("exc", e)


def expect_refusal(oc, names, where, key):
    if oc[0] == "ret":
        return [(key + "/not_refused", "%s: returned %r instead of raising %s" % (where, oc[1], "/".join(names)))]
    if type(oc[1]).__name__ not in names:
        return [(key + "/wrong_error", "%s: raised %s (%s), expected %s" % (where, type(oc[1]).__name__, oc[1], "/".join(names)))]
    return []


def expect_accept(oc, where, key):
    if oc[0] != "ret":
        return [(key + "/valid_refused", "%s: valid request raised %s: %s" % (where, type(oc[1]).__name__, oc[1]))]
    return []


VALID_TARGET = {"descriptor_type_code": 0xE4, "peripheral_device_type": 0,
                "target_descriptor_parameters": {"code_set": 1, "association": 0, "designator_type": 3, "designator_length": 8,
                                                 "designator": {"naa": 5, "ieee_company_id": 0x123456, "vendor_specific_identifier": 0x789}},
                "device_type_specific_parameters": {"disk_block_length": 512}}


def seg_b2b(v):
    s = {"descriptor_type_code": 0x02, "block_device_number_of_blocks": 4, "source_block_device_logical_block_address": 1,
         "destination_block_device_logical_block_address": 10}
    if v == 4:
        s.update({"source_target_descriptor_id": 0, "destination_target_descriptor_id": 1})
    else:
        s.update({"source_cscd_descriptor_id": 0, "destination_cscd_descriptor_id": 1})
    return s


def run_case(case, obs=None):
    install.ensure()
    if case[0] == "race":
        return run_race(case[1], case[2], case[3])
    kind = case[0]
    if kind == "copied_facade":
        import copy
        _, method, via, which = case
        rig = harness.Rig(via, 0x00)
        try:
            plain = rig.facade(blocksize=0)
            tuned = copy.copy(plain) if which == "copy" else copy.deepcopy(plain) if which == "deepcopy" else type(plain)(rig.dev, 0)
            tuned.blocksize = 512
            n0 = len(rig.target.log)
            args = {"read": (1, 2), "write": (1, 2, bytearray(1024)), "writesame": (1, 2, bytearray(512))}[method.rstrip("0126")]
            oc = outcome_of(lambda: getattr(plain, method)(*args))
            sent = len(rig.target.log) - n0
            bs = plain.blocksize
        except Exception as e:   # noqa: BLE001 - (a facade that cannot be copied is no violation)
            rig.close()
            return []
        rig.close()
        where = "%s through a facade without block size, after a %s of it was given block size 512 (%s)" % (method, which, via)
        v = expect_refusal(oc, ["MissingBlocksizeException"], where, "copied_facade")
        if sent:
            v.append(("copied_facade/sent", "%s: %d command(s) reached the device" % (where, sent)))
        if bs:
            v.append(("copied_facade/blocksize", "%s: the original facade now reports block size %r" % (where, bs)))
        return v
    if kind == "none_blocksize":
        # "no block size" spelled None (SCSI(dev, blocksize=None) or s.blocksize = None): every block transfer is refused, nothing sent
        _, method, via, how = case
        rig = harness.Rig(via, 0x00)
        try:
            if how == "ctor":
                from pyscsi.pyscsi.scsi import SCSI
                s = SCSI(rig.dev, None)
            else:
                s = rig.facade(blocksize=512)
                s.blocksize = None
            n0 = len(rig.target.log)
            args = {"read": (1, 2), "write": (1, 2, bytearray(1024)), "writesame": (1, 2, bytearray(512))}[method.rstrip("0126")]
            oc = outcome_of(lambda: getattr(s, method)(*args))
            sent = len(rig.target.log) - n0
        finally:
            rig.close()
        where = "%s through a facade whose block size is None (%s) over %s" % (method, how, via)
        v = []
        if oc[0] == "ret":
            v.append(("none_blocksize/not_refused", "%s: returned %r" % (where, oc[1])))
        if sent:
            v.append(("none_blocksize/sent", "%s: %d command(s) reached the device" % (where, sent)))
        return v
    if kind == "blocksize":
        _, name, via, point, bs = case[:5]
        withdata = len(case) > 5 and case[5]
        c = S.CLASSES[name]
        valid = bs != 0 or (name == "WriteSame16" and point.get("ndob") == 1) or (
            name in S.ATA_LBA_BYTES and not (point.get("byte_block") and point.get("t_type") and point.get("t_length")))
        where = "%s(%r, blocksize=%d%s) via %s" % (name, point, bs, ", data given" if withdata else "", via)
        if via == "ctor":
            op = CS.get_opcode(*c["tables"][0])
            cls = CS.get_class(name)
            kw = CS.build_kwargs(name, point, blocksize=max(bs, 1), ata_blocksize=bs)
            if "blocksize" in c["extra"]:
                kw["blocksize"] = bs
            if withdata:
                kw["data"] = bytearray(b"\x11" * 512)
            oc = outcome_of(lambda: cls(op, **kw))
            sent = 0
        else:
            rig = harness.Rig(via, 0x00)
            try:
                s = rig.facade(blocksize=bs)
                others = []
                for pre in (case[6] if len(case) > 6 else []):
                    # earlier traffic through the same facade: whatever it taught the facade, a transfer without block size stays refused
                    try:
                        if pre == "bs4096-0":
                            s.blocksize = 4096
                            s.blocksize = 0
                        elif pre == "refused":
                            s.read16(0, 1)
                        elif pre == "other512":
                            # a second facade over the SAME device object, given a block size: its setting is its own
                            from pyscsi.pyscsi.scsi import SCSI
                            others.append(SCSI(rig.dev, 512))
                        elif pre == "otherset":
                            from pyscsi.pyscsi.scsi import SCSI
                            o = SCSI(rig.dev)
                            o.blocksize = 4096
                            others.append(o)
                        elif pre == "readcapacity16":
                            s.readcapacity16()
                        else:
                            F.call(s, pre)
                    except Exception:   # noqa: BLE001
                        pass
                n0 = len(rig.target.log)
                kw = CS.build_kwargs(name, point, blocksize=max(bs, 1), ata_blocksize=bs)
                kw.pop("blocksize", None) if "blocksize" in c["extra"] else None
                if name in S.ATA_LBA_BYTES and bs == 0:
                    kw.pop("blocksize", None)
                if withdata:
                    kw["data"] = bytearray(b"\x11" * 512)
                m = FACADE_OF[name]
                pos = [kw.pop(k) for k in F.ORDER[m]]
                oc = outcome_of(lambda: getattr(s, m)(*pos, **kw))
                sent = len(rig.target.log) - n0
            finally:
                rig.close()
        if obs is not None:
            obs.append((oc[0], type(oc[1]).__name__, sent))
        if valid:
            if via != "ctor" and sent == 1:
                return []        # the library accepted and sent it; what the target answers is not a refusal by the library
            return expect_accept(oc, where, "blocksize/%s" % name)
        v = expect_refusal(oc, ["MissingBlocksizeException"], where, "blocksize/%s" % name)
        if sent:
            v.append(("blocksize/%s/sent" % name, "%s: %d command(s) reached the device" % (where, sent)))
        return v
    if kind == "opcode":
        _, target, value = case
        from pyscsi.pyscsi.scsi_command import SCSICommand
        from pyscsi.pyscsi.scsi_opcode import OpCode
        op = OpCode("X", value, {})
        fn = {"init_cdb": lambda: SCSICommand.init_cdb(op),
              "TestUnitReady": lambda: CS.get_class("TestUnitReady")(op),
              "Read10": lambda: CS.get_class("Read10")(op, 512, 0, 1),
              "Inquiry": lambda: CS.get_class("Inquiry")(op)}[target]
        oc = outcome_of(fn)
        if obs is not None:
            obs.append((oc[0], type(oc[1]).__name__))
        where = "%s with opcode %#04x" % (target, value)
        if T.cdb_length(value) is None:
            return expect_refusal(oc, ["OpcodeException"], where, "opcode/%s" % target)
        if target != "init_cdb":
            return []           # a fixed-length code of another command's group: not this property's subject
        v = expect_accept(oc, where, "opcode/%s" % target)
        if not v:
            got = len(oc[1] if target == "init_cdb" else oc[1].cdb)
            if got != T.cdb_length(value):
                v.append(("opcode/%s/length" % target, "%s: CDB of %d bytes" % (where, got)))
        return v
    if kind == "prin":
        _, tr, st, sa = case
        rig = harness.Rig(tr, F.SET_TO_TYPE.get(st, 0))
        known = (0, 1, 2, 3)
        try:
            s = rig.facade()
            if st == "custom":
                # a command set assigned by the caller whose PERSISTENT RESERVE IN entry numbers its service actions in its own way
                # (a bridge with vendor numbering): known / unknown is what THAT entry lists
                from pyscsi.pyscsi.scsi_opcode import OpCode
                from pyscsi.utils.enum import Enum
                rig.dev.opcodes = Enum({"INQUIRY": OpCode("INQUIRY", 0x12, {}), "TEST_UNIT_READY": OpCode("TEST_UNIT_READY", 0x00, {}),
                                        "PERSISTENT_RESERVE_IN": OpCode("PERSISTENT_RESERVE_IN", 0x5E, {"READ_KEYS": 0x10, "READ_RESERVATION": 0x11,
                                                                                                       "REPORT_CAPABILITIES": 0x12, "READ_FULL_STATUS": 0x13})})
                known = (0x10, 0x11, 0x12, 0x13)
            n0 = len(rig.target.log)
            oc = outcome_of(lambda: s.persistentreservein(sa))
            sent = len(rig.target.log) - n0
            cdbs = [r["cdb"] for r in rig.target.log[n0:]]
        finally:
            rig.close()
        if obs is not None:
            obs.append((oc[0], type(oc[1]).__name__, sent))
        where = "persistentreservein(%r) on %s/%s" % (sa, tr, st)
        if sa in known and type(sa) is int:
            v = expect_accept(oc, where, "prin")
            if sent != 1:
                v.append(("prin/sent", "%s: %d commands sent" % (where, sent)))
            elif cdbs[0][0] != 0x5E or (cdbs[0][1] & 0x1F) != sa:
                v.append(("prin/cdb", "%s: CDB %s sent, expected 5Eh with service action %#x" % (where, cdbs[0].hex(), sa)))
            return v
        v = expect_refusal(oc, ["ValueError"], where, "prin")
        if sent:
            v.append(("prin/sent_invalid", "%s: %d command(s) reached the device" % (where, sent)))
        return v
    if kind == "xcopy":
        _, ver, tr, what, arg = case
        tkey = "target_descriptor_list" if ver == 4 else "cscd_descriptor_list"
        tgt = dict(VALID_TARGET)
        if ver == 5:
            tgt["cscd_descriptor_parameters"] = tgt.pop("target_descriptor_parameters")
        seg = seg_b2b(ver)
        expect = None           # None -> accepted; else list of exception names
        if what == "valid":
            pass
        elif what == "target_key":
            # (an unknown key is refused whatever it is set to: 1, or arg = [key, value] with None / 0 / "" / [] / False)
            if isinstance(arg, list):
                tgt[arg[0]] = arg[1]
            else:
                tgt[arg] = 1
            expect = ["ValueError"]
        elif what == "segment_key":
            if isinstance(arg, list):
                seg[arg[0]] = arg[1]
            else:
                seg[arg] = 1
            expect = ["ValueError"]
        elif what == "target_code":
            tgt["descriptor_type_code"] = arg
            defined = set(range(0xE0, 0xEB)) | ({0xEB, 0xEC, 0xFE} if ver == 5 else set())
            expect = None if arg == 0xE4 else (["NotImplementedError", "ValueError"] if arg in defined else ["ValueError"])
        elif what == "segment_code":
            seg = dict(seg, descriptor_type_code=arg)
            implemented = {0x02, 0x0D}
            defined = set(range(0x00, 0x16)) | ({0x16, 0x17, 0x18, 0x19, 0xBE, 0xBF} if ver == 5 else set())
            if arg in implemented:
                expect = None
            elif arg in (0x00, 0x01, 0x0B, 0x0C):
                return []       # other layouts: keys differ, judged in C05
            else:
                expect = ["NotImplementedError", "ValueError"] if arg in defined else ["ValueError"]
        elif what == "lu_id_type":
            tgt["lu_id_type"] = arg
            expect = None if arg == 0 else ["ValueError"]
        elif what == "device_type" and isinstance(arg, str):
            # a code written as numeric text ("0x02", "2"): for a code the class does not accept the request is refused like the
            # integer is; text for an accepted code may be taken or refused
            tgt["peripheral_device_type"] = arg
            try:
                n = int(arg, 0)
            except ValueError:
                n = int(arg.strip() or "0", 10)
            if n in (0x00, 0x01, 0x03, 0x04, 0x05, 0x07, 0x0E):
                return []
            expect = ["ValueError", "KeyError", "TypeError"]
        elif what == "device_type":
            tgt["peripheral_device_type"] = arg
            expect = None if arg in (0x00, 0x01, 0x03, 0x05, 0x0E) or (ver == 4 and arg in (0x04, 0x07)) else ["ValueError"]
            if arg in (0x04, 0x07) and ver == 5:
                return []       # SPC-5 class drops these two block types; either answer is tolerated
        rig = harness.Rig(tr, 0x00)
        try:
            s = rig.facade()
            n0 = len(rig.target.log)
            m = "extendedcopy%d" % ver
            oc = outcome_of(lambda: getattr(s, m)(**{tkey: [dict(tgt), dict(tgt)],
                                                    "segment_descriptor_list": [seg]}))
            sent = len(rig.target.log) - n0
        finally:
            rig.close()
        if obs is not None:
            obs.append((oc[0], type(oc[1]).__name__, sent))
        where = "extendedcopy%d %s=%r via %s" % (ver, what, arg, tr)
        if expect is None:
            v = expect_accept(oc, where, "xcopy%d/%s" % (ver, what))
            if not v and sent != 1:
                v.append(("xcopy%d/sent" % ver, "%s: %d commands sent" % (where, sent)))
            return v
        v = expect_refusal(oc, expect, where, "xcopy%d/%s" % (ver, what))
        if sent:
            v.append(("xcopy%d/%s/sent" % (ver, what), "%s: %d command(s) reached the device" % (where, sent)))
        return v
    if kind == "xnames":
        # descriptor codes given by *name*: a name valid for one field must still be refused in a field governed by another table,
        # also after it has been resolved legitimately earlier in the same process (warm=1)
        _, ver, tr, warm, field, name = case
        tkey = "target_descriptor_list" if ver == 4 else "cscd_descriptor_list"
        pkey = "target_descriptor_parameters" if ver == 4 else "cscd_descriptor_parameters"
        e4 = "Identification descriptor target descriptor" if ver == 4 else "Identification Descriptor CSCD descriptor"

        def tgt_named():
            t = dict(VALID_TARGET)
            t[pkey] = t.pop("target_descriptor_parameters")
            t["descriptor_type_code"] = e4
            t["peripheral_device_type"] = "Block"
            return t
        seg = seg_b2b(ver)
        seg["descriptor_type_code"] = "Copy from block device to block device"
        rig = harness.Rig(tr, 0x00)
        try:
            s = rig.facade()
            m = "extendedcopy%d" % ver
            if warm:
                oc0 = outcome_of(lambda: getattr(s, m)(**{tkey: [tgt_named()], "segment_descriptor_list": [dict(seg)]}))
                if oc0[0] != "ret":
                    return [("xcopy%d/names/valid_refused" % ver, "extendedcopy%d with codes given by name raised %s: %s" % (ver, type(oc0[1]).__name__, oc0[1]))]
            t = tgt_named()
            sg = dict(seg_b2b(ver))
            if field == "device_type":
                t["peripheral_device_type"] = name
            elif field == "target_code":
                t["descriptor_type_code"] = name
            else:
                sg["descriptor_type_code"] = name
            n0 = len(rig.target.log)
            oc = outcome_of(lambda: getattr(s, m)(**{tkey: [t], "segment_descriptor_list": [sg]}))
            sent = len(rig.target.log) - n0
        finally:
            rig.close()
        if obs is not None:
            obs.append((oc[0], type(oc[1]).__name__, sent))
        valid = (field, name) in (("device_type", "Block"), ("segment_code", "Copy from block device to block device"), ("segment_code", "block -> block"),
                                  ("target_code", e4))
        where = "extendedcopy%d %s=%r (by name, %s) via %s" % (ver, field, name, "after a valid use of the names" if warm else "first use", tr)
        if valid:
            v = expect_accept(oc, where, "xcopy%d/names" % ver)
            if not v and sent != 1:
                v.append(("xcopy%d/names/sent" % ver, "%s: %d commands sent" % (where, sent)))
            return v
        v = expect_refusal(oc, ["ValueError"], where, "xcopy%d/names/%s" % (ver, field))
        if sent:
            v.append(("xcopy%d/names/%s/sent" % (ver, field), "%s: %d command(s) reached the device" % (where, sent)))
        return v
    if kind == "tid":
        _, tr, proto, fmt, sid, route = case
        tid = {"protocol_id": proto}
        if fmt is not None:
            tid["tpid_format"] = fmt
        if sid is not None:
            tid["iscsi_initiator_session_id"] = sid
        tid.update({"n_port_name": b"\x01" * 8, "eui64_name": b"\x02" * 8, "initiator_port_identifier": b"\x03" * 16,
                    "iscsi_name": "iqn.2000-01.verif:i", "sas_address": b"\x04" * 8, "routing_id": b"\x05" * 8})
        invalid = proto == 5 and (bool(fmt) != bool(sid))
        rig = harness.Rig(tr, 0x00)
        try:
            s = rig.facade()
            n0 = len(rig.target.log)
            if route == "register":
                oc = outcome_of(lambda: s.persistentreserveout(0, 0, 1, reservation_key=1, service_action_reservation_key=2, spec_i_pt=1,
                                                                transport_ids=[tid]))
            else:
                oc = outcome_of(lambda: s.persistentreserveout(7, 0, 1, reservation_key=1, service_action_reservation_key=2,
                                                                relative_target_port_id=1, transport_id=tid))
            sent = len(rig.target.log) - n0
        finally:
            rig.close()
        if obs is not None:
            obs.append((oc[0], type(oc[1]).__name__, sent))
        where = "persistentreserveout %s TransportID proto=%r format=%r session=%r via %s" % (route, proto, fmt, sid, tr)
        if not invalid:
            v = expect_accept(oc, where, "tid")
            if not v and sent != 1:
                v.append(("tid/sent", "%s: %d commands sent" % (where, sent)))
            return v
        v = expect_refusal(oc, ["ValueError"], where, "tid")
        if sent:
            v.append(("tid/sent_invalid", "%s: %d command(s) reached the device" % (where, sent)))
        return v
    raise ValueError(kind)


def replay(case):
    return run_case(case)


def run_partition(part, tier, seed):
    install.ensure()
    acc = Acc(seed)

    def do(case, nontrivial=True):
        acc.case(case, nontrivial=nontrivial, key=repr(case))
        obs = []
        try:
            v = run_case(case, obs)
        except Exception:
            import traceback
            v = [("harness_error", traceback.format_exc()[-600:])]
        for k, w in v:
            acc.violation(k, w, case)
        acc.outcome((case[0], tuple(obs), tuple(k for k, _ in v)))

    kind = part[0]
    if kind == "race":
        run_race(part[1], part[2], None, acc)
        return acc
    if kind == "blocksize":
        name = part[1]
        for point, r in CS.points(name, 1 if name not in S.ATA_LBA_BYTES else 2, 1 << 16):
            for bs in (0, 512):
                do(["blocksize", name, "ctor", point, bs], nontrivial=bs == 0)
                if name in S.ATA_LBA_BYTES:
                    do(["blocksize", name, "ctor", point, bs, 1], nontrivial=bs == 0)        # caller brings the buffer (data=...)
            if r <= 1:
                for via in ("sgio", "iscsi"):
                    do(["blocksize", name, via, point, 0])
                    if name in S.ATA_LBA_BYTES:
                        do(["blocksize", name, via, point, 0, 1])
            if r == 0:
                # ... also after every sequence of one or two other calls through the same facade
                for via in ("sgio", "iscsi"):
                    for n in (1, 2):
                        for pre in itertools.product(PRE_CALLS, repeat=n):
                            do(["blocksize", name, via, point, 0, 0, list(pre)])
    elif kind == "none_blocksize":
        for method in ("read10", "read16", "write10", "write16", "writesame10", "writesame16"):
            for via in ("sgio", "iscsi"):
                for which in ("copy", "deepcopy", "second"):
                    do(["copied_facade", method, via, which])
        for method in ("read10", "read12", "read16", "write10", "write12", "write16", "writesame10", "writesame16"):
            for via in ("sgio", "iscsi"):
                for how in ("ctor", "setter"):
                    do(["none_blocksize", method, via, how])
    elif kind == "opcode":
        for target in ("init_cdb", "TestUnitReady", "Read10", "Inquiry"):
            for v in range(256):
                do(["opcode", target, v], nontrivial=T.cdb_length(v) is None)
    elif kind == "prin":
        for tr in ("sgio", "iscsi"):
            for st in ("spc", "sbc", "ssc", "smc", "custom"):
                for sa in list(range(-1, 41)) + [255, 256, 1 << 16, None, "0"]:
                    do(["prin", tr, st, sa], nontrivial=sa not in (0, 1, 2, 3))
    elif kind == "xcopy":
        ver = part[1]
        for tr in ("sgio", "iscsi"):
            do(["xcopy", ver, tr, "valid", None], nontrivial=False)
            for k in ("bogus", "nul", "descriptor_length", "cat", "target_descriptor_parameter", "Descriptor_type_code", "", None, 0, False, ("a", 1)):
                do(["xcopy", ver, tr, "target_key", k if not isinstance(k, tuple) else ["__tuplekey__", 1]])
                for val in (None, 0, "", [], False):
                    do(["xcopy", ver, tr, "target_key", [k, val]])
            for k in ("bogus", "fco" if ver == 4 else "swap", "stream_device_transfer_length", "block_device_logical_block_address", "pad", "", None, 0, False):
                do(["xcopy", ver, tr, "segment_key", k])
                for val in (None, 0, "", [], False):
                    do(["xcopy", ver, tr, "segment_key", [k, val]])
            for code in range(256):
                do(["xcopy", ver, tr, "target_code", code], nontrivial=code != 0xE4)
                do(["xcopy", ver, tr, "segment_code", code], nontrivial=code not in (0x02, 0x0D))
            for code in ("nonsense", -1, 256, None):
                do(["xcopy", ver, tr, "target_code", code])
                do(["xcopy", ver, tr, "segment_code", code])
            for v in range(4):
                do(["xcopy", ver, tr, "lu_id_type", v], nontrivial=v != 0)
            for v in range(32):
                do(["xcopy", ver, tr, "device_type", v])
            for txt in ("0x02", "2", "0b10", "0o2", "12", "0x1f", "0x1F", "31", "0x06", "255", "0x100", " 2", "0x0", "0x05"):
                do(["xcopy", ver, tr, "device_type", txt])
            e4 = "Identification descriptor target descriptor" if ver == 4 else "Identification Descriptor CSCD descriptor"
            for warm in (0, 1):
                for field in ("device_type", "target_code", "segment_code"):
                    for nm in ("Block", "Stream", "block -> block", "Copy from block device to block device", e4, "Direct access block device (e.g., magnetic disk)"):
                        if field == "device_type" and nm in ("Stream", "Direct access block device (e.g., magnetic disk)"):
                            continue       # also in the device-type table
                        do(["xnames", ver, tr, warm, field, nm])
    elif kind == "tid":
        for tr in ("sgio", "iscsi"):
            for proto in (0, 3, 4, 5, 6, 0x0A):
                for fmt in (None, 0, 1):
                    for sid in (None, "", "1a2b3c4d5e6f", "000000000000", "0", "00"):
                        for route in ("register", "move"):
                            if proto != 5 and (fmt or sid):
                                continue
                            do(["tid", tr, proto, fmt, sid, route], nontrivial=proto == 5 and bool(fmt) != bool(sid))
    return acc
