"""C10 - the bit-field codec obeys its algebraic laws for every layout.

Exhaustive enumeration of layouts x values x prior buffer contents x supply orders,
judged against whole-buffer integer arithmetic (vf.spec.bits).
"""
import itertools

from vf.runner import Acc
from vf.spec import bits

ID = "C10"
OPT_QUICK_ALL = True      # every partition also in a child interpreter started with -O
LEVEL = "exploration"
TECHNIQUE = "bounded exhaustive enumeration of codec layouts/values/orders against an independent whole-buffer integer oracle"
RULE = ("int<->bytes: sizes 0..9 and 16..257 x (all values for size<=2, boundary alphabet above); single fields: every contiguous mask of "
        "width 1..72 (and 152, 256, 264, 512) at bit alignment 0..7 x offsets {0,1,5} x trailing bytes {0,2} x prior content {00,FF,A5} outside the field "
        "x values (exhaustive up to the tier's width, alphabet above); 2 and 3 non-overlapping fields x all supply orders; split fields (two runs of bits with a hole, a second field living in the hole) x 4x4x5 run widths x 4 alignments; blobs "
        "b/w/dw x lengths 0..4 x offsets, alone and mixed with a bit field, the blob given as bytearray / bytes / memoryview / list / tuple / array('B') and as typed buffers with wider items (array 'H' / 'I', memoryview casts); 2 and 3 blobs of every kind combination plus a bit field in every supply order; layout entries spelled as lists and as tuples (every single-field case both ways, multi-field layouts mixed), blob kind strings as literals and built at run time. A case is non-trivial when the value or the prior "
        "content is non-zero; distinct = distinct (kind, layout, value, prior, order) tuples.")
ASSUMPTIONS = [
    "oracle: vf/spec/bits.py (int.from_bytes of the whole buffer, one shift, one mask)",
    "prior content inside the field itself is zero (encode_dict is specified on a fresh buffer); outside it is arbitrary",
    "values are in range for their field; blob values have exactly the length the layout states",
]


def bounds(tier):
    return {"exhaustive_value_width": 8 if tier == "quick" else 12, "max_width": 72, "max_fields": 3}


def _conv():
    from pyscsi.utils import converter
    return converter


def layout_of(width, shift, offset):
    """library notation [mask, offset] and oracle notation (byte, msb, width) of the same field"""
    bl = width + shift
    n = (bl + 7) // 8
    mask = ((1 << width) - 1) << shift
    msb = 7 - (n * 8 - bl)
    return mask, n, (offset, msb, width)


PRIORS = {"00": 0x00, "FF": 0xFF, "A5": 0xA5}


def make_prior(buflen, pat, fields):
    """buffer filled with pat outside all `fields` (oracle notation), zero inside"""
    whole = int.from_bytes(bytes([pat]) * buflen, "big") if buflen else 0
    for (b, m, w) in fields:
        whole &= ~bits.field_mask(buflen, b, m, w)
    return whole.to_bytes(buflen, "big")


# ---------------------------------------------------------------------------------
def run_case(case, obs=None):
    """execute one case on the real codec; return list of (key, what); observed bytes are appended to obs"""
    cv = _conv()
    kind = case[0]
    out = []
    if kind == "int":
        _, size, value = case
        ba = cv.scsi_int_to_ba(value, size)
        exp = value.to_bytes(size, "big")
        if bytes(ba) != exp or not isinstance(ba, (bytes, bytearray)):
            out.append(("int_to_ba", "scsi_int_to_ba(%#x,%d)=%s expected %s" % (value, size, bytes(ba).hex(), exp.hex())))
        back = cv.scsi_ba_to_int(bytearray(exp))
        if back != value:
            out.append(("ba_to_int", "scsi_ba_to_int(%s)=%#x expected %#x" % (exp.hex(), back, value)))
        if obs is not None:
            obs.append(bytes(ba))
        if cv.scsi_ba_to_int(ba) != value:
            out.append(("int_roundtrip", "ba_to_int(int_to_ba(%#x,%d)) != value" % (value, size)))
        # the conversion is a function of its arguments only: what a caller does to one result must not show in the next
        try:
            ba += b"\xee\xee"
            if len(ba) > 2:
                ba[0] ^= 0xFF
        except TypeError:
            pass
        again = cv.scsi_int_to_ba(value, size)
        if bytes(again) != exp:
            out.append(("int_to_ba_shared_result", "scsi_int_to_ba(%#x,%d) returned %s after the caller modified an earlier result (expected %s)"
                        % (value, size, bytes(again).hex(), exp.hex())))
    elif kind == "single":
        _, width, shift, offset, trail, pat, value = case
        mask, n, fld = layout_of(width, shift, offset)
        buflen = offset + n + trail
        prior = make_prior(buflen, PRIORS[pat], [fld])
        buf = bytearray(prior)
        cv.encode_dict({"f": value}, {"f": [mask, offset]}, buf)
        exp = bits.deposit(prior, *fld, value)
        if obs is not None:
            obs.append(bytes(buf))
        if bytes(buf) != exp:
            out.append(("encode_single", "encode mask=%#x off=%d value=%#x prior=%s -> %s expected %s"
                        % (mask, offset, value, prior.hex(), bytes(buf).hex(), exp.hex())))
        res = {}
        cv.decode_bits(bytearray(exp), {"f": [mask, offset]}, res)
        if res.get("f") != value:
            out.append(("decode_single", "decode mask=%#x off=%d of %s -> %r expected %#x" % (mask, offset, exp.hex(), res.get("f"), value)))
        # decode on a buffer whose *every* other bit is set must still return only the field
        full = bits.deposit(bytes([0xFF]) * buflen, *fld, value)
        res = {}
        cv.decode_bits(bytearray(full), {"f": [mask, offset]}, res)
        if res.get("f") != value:
            out.append(("decode_isolation", "decode mask=%#x off=%d of %s -> %r expected %#x" % (mask, offset, full.hex(), res.get("f"), value)))
        # the same layout entry spelled as a tuple (the module's own annotation allows Tuple[int, int] as well as a list)
        buf = bytearray(prior)
        res = {}
        try:
            cv.encode_dict({"f": value}, {"f": (mask, offset)}, buf)
            cv.decode_bits(bytearray(exp), {"f": (mask, offset)}, res)
        except Exception as e:   # noqa: BLE001
            res = {"f": "raised %s" % type(e).__name__}
        if bytes(buf) != exp or res.get("f") != value:
            out.append(("tuple_entry", "layout entry (mask=%#x, off=%d) as a tuple: encode -> %s (expected %s), decode -> %r (expected %#x)"
                        % (mask, offset, bytes(buf).hex(), exp.hex(), res.get("f"), value)))
    elif kind == "multi":
        _, flds, order, pat, values, buflen = case
        lay = {}
        orc = {}
        for i, (width, startbit) in enumerate(flds):
            byte = startbit // 8
            msb = 7 - startbit % 8
            endbit = startbit + width            # one past
            n = (endbit + 7) // 8 - byte
            shift = (byte + n) * 8 - endbit
            lay["f%d" % i] = [((1 << width) - 1) << shift, byte] if i % 2 == 0 else (((1 << width) - 1) << shift, byte)
            orc["f%d" % i] = (byte, msb, width)
        prior = make_prior(buflen, PRIORS[pat], list(orc.values()))
        exp = prior
        for i, v in enumerate(values):
            exp = bits.deposit(exp, *orc["f%d" % i], v)
        buf = bytearray(prior)
        data = {"f%d" % i: values[i] for i in order}
        cv.encode_dict(data, lay, buf)
        if obs is not None:
            obs.append(bytes(buf))
        if bytes(buf) != exp:
            out.append(("encode_multi", "fields=%r order=%r values=%r prior=%s -> %s expected %s"
                        % (flds, order, values, prior.hex(), bytes(buf).hex(), exp.hex())))
        res = {}
        lay_o = {"f%d" % i: lay["f%d" % i] for i in order}
        cv.decode_bits(bytearray(exp), lay_o, res)
        want = {"f%d" % i: values[i] for i in range(len(values))}
        if res != want:
            out.append(("decode_multi", "fields=%r order=%r of %s -> %r expected %r" % (flds, order, exp.hex(), res, want)))
    elif kind == "blob":
        _, bk, length, offset, trail, pat, with_bits, order = case
        unit = {"b": 1, "w": 2, "dw": 4}[bk]
        bk = bk.encode("ascii").decode("ascii")     # an equal string built at run time (not the interned literal)
        nbytes = length * unit
        buflen = offset + nbytes + trail + (2 if with_bits else 0)
        value = bytes((0x11 * (i + 1)) & 0xFF for i in range(nbytes))
        lay = {"blob": (bk, offset, length)}
        data = {"blob": bytearray(value)}
        flds = []
        if with_bits:
            # a 12-bit field in the last two bytes, after the blob and the trailing bytes
            bo = buflen - 2
            lay["f"] = [0x3FFC, bo]
            flds = [(bo, 5, 12)]
            data["f"] = 0xABC
        prior = bytearray(make_prior(buflen, PRIORS[pat], flds))
        exp = bytearray(prior)
        exp[offset:offset + nbytes] = value
        exp = bytes(exp)
        if with_bits:
            exp = bits.deposit(exp, *flds[0], 0xABC)
        buf = bytearray(prior)
        cv.encode_dict({k: data[k] for k in order}, lay, buf)
        if obs is not None:
            obs.append(bytes(buf))
        if bytes(buf) != exp:
            out.append(("encode_blob", "%s len=%d off=%d order=%r prior=%s -> %s expected %s"
                        % (bk, length, offset, order, bytes(prior).hex(), bytes(buf).hex(), exp.hex())))
        # the blob handed over in other containers: bytes, a memoryview, a list / tuple of ints
        import array

        def typed(code):
            def conv(v):
                a = array.array(code)
                a.frombytes(v)
                return a
            return conv
        convs = [("bytes", bytes), ("memoryview", memoryview), ("list", list), ("tuple", tuple), ("array('B')", typed("B"))]
        # typed buffers whose items are wider than a byte (the natural container of word blobs): same raw bytes, fewer items
        if nbytes and nbytes % 2 == 0:
            convs += [("array('H')", typed("H")), ("memoryview cast to 'H'", lambda v: memoryview(bytearray(v)).cast("H"))]
        if nbytes and nbytes % 4 == 0:
            convs += [("array('I')", typed("I")), ("memoryview cast to 'I'", lambda v: memoryview(bytearray(v)).cast("I"))]
        for cname, conv in convs:
            d2 = dict(data, blob=conv(value))
            buf2 = bytearray(prior)
            try:
                cv.encode_dict({k: d2[k] for k in order}, lay, buf2)
            except Exception as e:   # noqa: BLE001
                out.append(("encode_blob_container/%s" % cname, "%s len=%d off=%d: blob given as %s: encode raised %s: %s" % (bk, length, offset, cname, type(e).__name__, e)))
                continue
            if bytes(buf2) != exp:
                out.append(("encode_blob_container/%s" % cname, "%s len=%d off=%d: blob given as %s -> %s expected %s" % (bk, length, offset, cname, bytes(buf2).hex(), exp.hex())))
        res = {}
        cv.decode_bits(bytearray(exp), {k: lay[k] for k in order}, res)
        if bytes(res.get("blob", b"?")) != value or (with_bits and res.get("f") != 0xABC):
            out.append(("decode_blob", "%s len=%d off=%d of %s -> %r" % (bk, length, offset, exp.hex(), res)))
    elif kind == "overlap":
        _, bk, length, src, dst, target = case
        n = length * {"b": 1, "w": 2, "dw": 4}[bk]
        size = max(src, dst) + n + 4
        orig = bytes((i * 7 + 3) & 0xFF for i in range(size))
        store = bytearray(orig)
        tgt = store if target == "bytearray" else memoryview(store)
        value = memoryview(store)[src:src + n]
        exp = bytearray(orig)
        exp[dst:dst + n] = orig[src:src + n]
        try:
            cv.encode_dict({"blob": value}, {"blob": (bk, dst, length)}, tgt)
        except Exception:   # noqa: BLE001 - refusing a view of the target (or a memoryview target) is fine
            return []
        finally:
            value.release()
        if obs is not None:
            obs.append(bytes(store))
        if bytes(store) != bytes(exp):
            out.append(("encode_overlap", "%s blob of %d bytes taken from offset %d of the %s it is encoded into at offset %d: buffer is %s, expected %s (the bytes the value had at call time)"
                        % (bk, n, src, target, dst, bytes(store).hex(), bytes(exp).hex())))
    elif kind == "shared":
        _, akind, bkind, at, pat = case
        lay_a = {"bits": {"a1": [0xFFF0, 0], "a2": [0x0F, 1], "a3": [0x80, 2]}, "blob": {"a1": ("b", 0, 2), "a2": ("b", 2, 1)},
                 "mixed": {"a1": ("b", 0, 1), "a2": [0x7F80, 1], "a3": [0x3F, 2]}}[akind]
        val_a = {"bits": {"a1": 0xABC, "a2": 0x5, "a3": 1}, "blob": {"a1": bytearray(b"\x12\x34"), "a2": bytearray(b"\x56")},
                 "mixed": {"a1": bytearray(b"\x9a"), "a2": 0xC3, "a3": 0x2A}}[akind]
        lay_b = {"bits": {"b1": [0xFFFFFF, 4], "b2": [0xF0, 7]}, "blob": {"b1": ("w", 4, 2)}}[bkind]
        val_b = {"bits": {"b1": 0x00C0DE, "b2": 0x9}, "blob": {"b1": bytearray(b"\xde\xad\xbe\xef")}}[bkind]
        prior = bytes([PRIORS[pat]]) * 8
        # expectation from the independent oracle: both sets of fields deposited into the prior content (blobs replace, bit fields XOR)
        ref = bytearray(prior)
        cv2 = _conv()
        cv2.encode_dict(dict(val_b), lay_b, ref)
        only_b = bytes(ref)
        buf = bytearray(prior)

        class Lazy(dict):
            fetched = 0

            def __getitem__(self, key):
                if Lazy.fetched == at:
                    cv.encode_dict(dict(val_b), lay_b, buf)          # the other writer, in full, into bytes 4-7 of the same buffer
                Lazy.fetched += 1
                return dict.__getitem__(self, key)
        try:
            cv.encode_dict(Lazy(val_a), lay_a, buf)
        except Exception as e:   # noqa: BLE001
            return [("encode_shared", "two encodes sharing a buffer: raised %s: %s" % (type(e).__name__, e))]
        if obs is not None:
            obs.append(bytes(buf))
        if Lazy.fetched <= at:
            return []
        if bytes(buf[4:8]) != only_b[4:8]:
            out.append(("encode_shared", "fields %s of bytes 0-2 encoded while another encode (fields %s, bytes 4-7) ran in between (at value fetch #%d, prior %s): bytes 4-7 are %s, "
                        "the other encode had written %s - an encode wrote outside the bits of its own fields" % (akind, bkind, at, pat, bytes(buf[4:8]).hex(), only_b[4:8].hex())))
        if bytes(buf[3:4]) != prior[3:4]:
            out.append(("encode_shared", "byte 3 (no field) changed to %s" % bytes(buf[3:4]).hex()))
    elif kind == "blobs":
        # several blobs of different kinds (and a bit field) in one layout, supplied in the given order, with bytes after each
        _, specs, order, pat = case
        unit = {"b": 1, "w": 2, "dw": 4}
        lay, data, exp_parts = {}, {}, []
        pos = 1
        for i, (bk, length) in enumerate(specs):
            n = length * unit[bk]
            if i % 2:
                bk = bk.encode("ascii").decode("ascii")     # run-time string, equal but not identical to the literal
            lay["k%d" % i] = (bk, pos, length) if i % 2 == 0 else [bk, pos, length]
            data["k%d" % i] = bytearray((0x21 * (i + 1) + j) & 0xFF for j in range(n))
            exp_parts.append((pos, bytes(data["k%d" % i])))
            pos += n + 1                              # one untouched byte between fields
        lay["f"] = (0x0FF0, pos)
        data["f"] = 0xA5
        buflen = pos + 2 + 3
        prior = bytearray(make_prior(buflen, PRIORS[pat], [(pos, 3, 8)]))
        exp = bytearray(prior)
        for (p0, bts) in exp_parts:
            exp[p0:p0 + len(bts)] = bts
        exp = bits.deposit(bytes(exp), pos, 3, 8, 0xA5)
        buf = bytearray(prior)
        keys = ["k%d" % i for i in range(len(specs))] + ["f"]
        ordered = [keys[i] for i in order]
        try:
            cv.encode_dict({k: data[k] for k in ordered}, lay, buf)
        except Exception as e:   # noqa: BLE001
            return [("encode_blobs", "layout %r order %r: encode raised %s: %s" % (specs, order, type(e).__name__, e))]
        if obs is not None:
            obs.append(bytes(buf))
        if bytes(buf) != exp:
            out.append(("encode_blobs", "layout %r order %r prior=%s -> %s expected %s" % (specs, order, bytes(prior).hex(), bytes(buf).hex(), exp.hex())))
        res = {}
        cv.decode_bits(bytearray(exp), {k: lay[k] for k in ordered}, res)
        for i in range(len(specs)):
            if bytes(res.get("k%d" % i, b"?")) != bytes(data["k%d" % i]):
                out.append(("decode_blobs", "layout %r order %r: blob %d decoded as %r" % (specs, order, i, res.get("k%d" % i))))
        if res.get("f") != 0xA5:
            out.append(("decode_blobs", "layout %r order %r: bit field decoded as %r" % (specs, order, res.get("f"))))
    elif kind == "split":
        # a field whose mask is two runs of bits with a hole between them, and a second field living in the hole (non-overlapping):
        # values are given in the mask's own coordinates (mask >> lowest set bit)
        _, lo_w, hole_w, hi_w, shift, offset, vsel, hsel, order, pat = case
        total = lo_w + hole_w + hi_w
        mask_u = (((1 << hi_w) - 1) << (lo_w + hole_w)) | ((1 << lo_w) - 1)      # unshifted split mask
        hole_u = ((1 << hole_w) - 1) << lo_w
        nbytes = (total + shift + 7) // 8
        value = {0: 0, 1: mask_u, 2: 1, 3: 1 << (total - 1), 4: mask_u & 0xA5A5A5A5A5A5A5A5A5, 5: mask_u & 0x5A5A5A5A5A5A5A5A5A}[vsel]
        hval = {0: 0, 1: (1 << hole_w) - 1, 2: 1}[hsel]
        buflen = offset + nbytes + 1
        prior_i = int.from_bytes(make_prior(buflen, PRIORS[pat], []), "big")
        fieldbits = ((mask_u | hole_u) << shift) << (8 * (buflen - offset - nbytes))
        prior_i &= ~fieldbits
        pos = 8 * (buflen - offset - nbytes) + shift
        exp_i = prior_i | (value << pos) | ((hval << lo_w) << pos)
        exp = exp_i.to_bytes(buflen, "big")
        # (a mask spans as many bytes as its own value needs, counted from its offset: the hole field starts further right)
        hole_nbytes = ((hole_u << shift).bit_length() + 7) // 8
        lay = {"s": [mask_u << shift, offset], "h": [hole_u << shift, offset + nbytes - hole_nbytes]}
        data = {"s": value, "h": hval}
        keys = ["s", "h"] if order == 0 else ["h", "s"]
        buf = bytearray(prior_i.to_bytes(buflen, "big"))
        try:
            cv.encode_dict({k: data[k] for k in keys}, lay, buf)
            res = {}
            cv.decode_bits(bytearray(exp), {k: lay[k] for k in keys}, res)
        except Exception as e:   # noqa: BLE001
            return [("split_raises", "split mask %#x with a field in its hole: %s: %s" % (mask_u << shift, type(e).__name__, e))]
        if obs is not None:
            obs.append(bytes(buf))
        if bytes(buf) != exp:
            out.append(("encode_split", "mask %#x (hole field %#x) off=%d values %#x/%#x -> %s expected %s"
                        % (mask_u << shift, hole_u << shift, offset, value, hval, bytes(buf).hex(), exp.hex())))
        if res.get("s") != value or res.get("h") != hval:
            out.append(("decode_split", "mask %#x (hole field %#x) off=%d of %s -> %r expected s=%#x h=%#x"
                        % (mask_u << shift, hole_u << shift, offset, exp.hex(), res, value, hval)))
    else:
        raise ValueError(kind)
    return out


def replay(case):
    return run_case(case)


# ---------------------------------------------------------------------------------
def partitions(tier):
    parts = [["int"], ["blob"], ["blobs", 2], ["blobs", 3], ["split"], ["shared"], ["overlap"]]
    for w in (152, 256, 264, 512):          # masks wider than 9 / 19 / 32 bytes
        parts.append(["single", w])
    for w in range(1, 73):
        parts.append(["single", w])
    widths2 = [1, 3, 8, 12, 16, 24, 32, 40, 64]
    for w1 in widths2:
        parts.append(["multi2", w1])
    for w1 in [1, 3, 8, 12, 16]:
        parts.append(["multi3", w1])
    return parts


def gen(part, tier):
    kind = part[0]
    xw = bounds(tier)["exhaustive_value_width"]
    if kind == "int":
        for size in list(range(0, 10)) + [16, 19, 31, 32, 33, 40, 64, 65, 100, 255, 256, 257]:
            if size <= 2:
                vals = range(256 ** size)
            elif size < 10:
                vals = bits.alphabet(8 * size)
            else:
                # wide integers (the widest shipped layout entry spans 19 bytes): top byte, bottom byte, all ones, a ramp
                vals = [0, 1, (1 << (8 * size)) - 1, 1 << (8 * size - 1), 0xA5 << (8 * (size - 1)), int.from_bytes(bytes((i * 7 + 1) & 0xFF for i in range(size)), "big")]
            for v in vals:
                yield ("int", size, v)
    elif kind == "single":
        w = part[1]
        vals = list(range(1 << w)) if w <= xw else bits.alphabet(w)
        for shift in range(8):
            for offset in (0, 1, 5):
                for trail in (0, 2):
                    for pat in PRIORS:
                        for v in vals:
                            yield ("single", w, shift, offset, trail, pat, v)
    elif kind == "multi2":
        w1 = part[1]
        widths2 = [1, 3, 8, 12, 16, 24, 32, 40, 64]
        for w2 in widths2:
            for b1 in range(16):
                for gap in (0, 1, 7, 8):
                    flds = ((w1, b1), (w2, b1 + w1 + gap))
                    end = b1 + w1 + gap + w2
                    buflen = (end + 7) // 8 + 1
                    vs = [_vals3(w1), _vals3(w2)]
                    for values in itertools.product(*vs):
                        for order in ((0, 1), (1, 0)):
                            for pat in ("00", "FF"):
                                yield ("multi", flds, order, pat, values, buflen)
    elif kind == "multi3":
        w1 = part[1]
        ws = [1, 3, 8, 12, 16]
        for w2 in ws:
            for w3 in ws:
                for b1 in range(8):
                    for g1 in (0, 1):
                        for g2 in (0, 1):
                            s2 = b1 + w1 + g1
                            s3 = s2 + w2 + g2
                            flds = ((w1, b1), (w2, s2), (w3, s3))
                            buflen = (s3 + w3 + 7) // 8
                            for values in itertools.product(*[_vals2(w) for w in (w1, w2, w3)]):
                                for order in itertools.permutations(range(3)):
                                    yield ("multi", flds, order, "A5", values, buflen)
    elif kind == "split":
        for lo_w in (1, 2, 4, 8):
            for hole_w in (1, 2, 8, 9):
                for hi_w in (1, 2, 4, 8, 16):
                    for shift in (0, 3, 4, 7):
                        for offset in (0, 2):
                            for vsel in range(6):
                                for hsel in range(3):
                                    for order in (0, 1):
                                        yield ("split", lo_w, hole_w, hi_w, shift, offset, vsel, hsel, order, "FF" if (vsel + hsel) % 2 else "00")
    elif kind == "overlap":
        # a blob taken FROM the target buffer (a live view of the same memory) and stored at another offset of it - moving a descriptor
        # inside one parameter buffer; source below / above / overlapping the field; the target a bytearray or a memoryview of one
        for bk, unit in (("b", 1), ("w", 2), ("dw", 4)):
            for length in (1, 2, 4):
                for src in (0, 2, 4, 8, 12):
                    for dst in (0, 4, 6, 8):
                        for target in ("bytearray", "memoryview"):
                            if src != dst:
                                yield ("overlap", bk, length, src, dst, target)
    elif kind == "shared":
        # two encodes into ONE buffer that overlap in time: the second (fields of bytes 4-7) runs to completion while the first (fields
        # of bytes 0-2) is fetching its k-th value from a lazy mapping; each writes its own bits only, so both survive
        for akind in ("bits", "blob", "mixed"):
            for bkind in ("bits", "blob"):
                for at in (0, 1, 2):
                    for pat in ("00", "FF", "A5"):
                        yield ("shared", akind, bkind, at, pat)
    elif kind == "blobs":
        nb = part[1]
        kinds = [("b", 1), ("b", 3), ("w", 1), ("w", 2), ("dw", 1), ("dw", 2)]
        for specs in itertools.product(kinds, repeat=nb):
            for order in itertools.permutations(range(nb + 1)):
                for pat in ("00", "A5"):
                    yield ("blobs", specs, order, pat)
    elif kind == "blob":
        for bk in ("b", "w", "dw"):
            for length in range(0, 5):
                for offset in (0, 1, 5):
                    for trail in (0, 3):
                        for pat in PRIORS:
                            yield ("blob", bk, length, offset, trail, pat, False, ("blob",))
                            for order in (("blob", "f"), ("f", "blob")):
                                yield ("blob", bk, length, offset, trail, pat, True, order)


def _vals3(w):
    mx = (1 << w) - 1
    a5 = int.from_bytes(b"\xa5" * ((w + 7) // 8), "big") & mx
    return sorted({0, mx, a5 or mx})


def _vals2(w):
    mx = (1 << w) - 1
    a5 = int.from_bytes(b"\xa5" * ((w + 7) // 8), "big") & mx
    return sorted({mx, a5 or mx})


def _nontrivial(case):
    k = case[0]
    if k == "int":
        return case[2] != 0
    if k == "single":
        return case[6] != 0 or case[5] != "00"
    if k == "multi":
        return any(case[4]) or case[3] != "00"
    if k == "blobs":
        return True
    return case[2] != 0


def run_partition(part, tier, seed):
    acc = Acc(seed)
    for case in gen(part, tier):
        acc.case(case, nontrivial=_nontrivial(case), key=case)
        obs = []
        try:
            viols = run_case(case, obs)
        except Exception as e:  # the codec raised on an in-range input
            viols = [("raises_" + case[0], "%s: %r" % (type(e).__name__, e))]
        for key, what in viols:
            acc.violation(key, what, list(case))
        acc.outcome((case[0], tuple(obs), tuple(k for k, _ in viols)))
    return acc
