"""C04 - well-formed device responses are decoded to the values the device sent."""
import itertools

from vf.runner import Acc
from vf.spec import bits
from vf.spec import responses as R

ID = "C04"
LEVEL = "exploration"
TECHNIQUE = "deviation-bounded exhaustive enumeration of standards-conformant responses produced by independent encoders (all field values over their alphabets, descriptor counts 0..3, with/without trailing buffer space); each decoded dictionary compared key by key with the encoded values"
RULE = ("fixed-layout VPD pages 86h/B0h/B1h/B2h/B3h with every PAGE LENGTH from 0 to the full layout in a buffer whose tail holds stale bytes (A5h / FFh): fields within the page as sent, fields beyond it not reported; per parsed format, responses built by vf/spec/responses.py: every field over its whole alphabet one at a time from the all-zero and the "
        "all-ones baseline (quick), pairs of fields too (thorough); descriptor lists with 0..3 entries (x 0..3 inner entries) and with 10,11,12,16,17,32,33 entries (count boundaries), each with and "
        "without trailing zero buffer space; designators of 9 kinds x NAA 2/3/5/6 x EUI-64 8/12/16; TransportIDs of 5 protocols; mode data with "
        "0/1/2 block descriptors x 4 pages; READ CD over 15 sector layouts x C2 {0,1,2} x sub-channel {0,2,4} x 0..2 sectors. "
        "Non-trivial = any non-zero value or at least one descriptor; distinct = distinct response byte strings.")
ASSUMPTIONS = [
    "oracle: vf/spec/responses.py (DESIGN.md Appendix B), whole-buffer integer deposit; expected values are compared under the library's own result keys",
    "only values the encoder placed are compared (extra keys in the result are ignored); list lengths and order must match exactly; every result is compared a second time after the next response has been decoded (results must not share state)",
    "excluded (DESIGN §6): SOP TransportIDs, PCIe routing-id designator, multi-page MODE SENSE responses, READ CD selections that name a field the sector type lacks",
]


def bounds(tier):
    return {"k": 1 if tier == "quick" else 2}


# ---------------------------------------------------------------------------------------------------------
def compare(exp, got, path, out, fmt):
    if isinstance(exp, dict):
        if not isinstance(got, dict):
            out.append(("%s/%s" % (fmt, path or "result"), "%s: expected a dict at %s, got %r" % (fmt, path, type(got).__name__)))
            return
        for k, v in exp.items():
            if k not in got:
                out.append(("%s/%s" % (fmt, _gk(path, k)), "%s: key %s missing from the result" % (fmt, _gk(path, k))))
            else:
                compare(v, got[k], _gk(path, k), out, fmt)
    elif isinstance(exp, list):
        if not isinstance(got, (list, tuple)) or len(got) != len(exp):
            out.append(("%s/%s/count" % (fmt, path), "%s: %s has %s entries, the response carries %d"
                        % (fmt, path, len(got) if isinstance(got, (list, tuple)) else type(got).__name__, len(exp))))
            return
        for i, (e, g) in enumerate(zip(exp, got)):
            compare(e, g, "%s[]" % path, out, fmt)
    elif isinstance(exp, (bytes, bytearray)):
        try:
            ok = bytes(got) == bytes(exp)
        except Exception:
            ok = False
        if not ok:
            out.append(("%s/%s" % (fmt, path), "%s: %s decoded as %s, device sent %s" % (fmt, path, _short(got), bytes(exp)[:24].hex())))
    else:
        if got != exp:
            out.append(("%s/%s" % (fmt, path), "%s: %s decoded as %s, device sent %r" % (fmt, path, _short(got), exp)))


def _gk(path, k):
    return "%s.%s" % (path, k) if path else str(k)


def _short(v):
    r = repr(v)
    return r if len(r) < 60 else r[:57] + "..."


def lib(name):
    import importlib
    mod, cls = {
        "Inquiry": ("scsi_cdb_inquiry", "Inquiry"), "ModeSense6": ("scsi_cdb_modesense6", "ModeSense6"),
        "ModeSense10": ("scsi_cdb_modesense10", "ModeSense10"), "ReadCapacity10": ("scsi_cdb_readcapacity10", "ReadCapacity10"),
        "ReadCapacity16": ("scsi_cdb_readcapacity16", "ReadCapacity16"), "GetLBAStatus": ("scsi_cdb_getlbastatus", "GetLBAStatus"),
        "ReportLuns": ("scsi_cdb_report_luns", "ReportLuns"), "ReportTargetPortGroups": ("scsi_cdb_report_target_port_groups", "ReportTargetPortGroups"),
        "ReportPriority": ("scsi_cdb_report_priority", "ReportPriority"), "ReadElementStatus": ("scsi_cdb_readelementstatus", "ReadElementStatus"),
        "ReadDiscInformation": ("scsi_cdb_readdiscinformation", "ReadDiscInformation"), "ReadCd": ("scsi_cdb_readcd", "ReadCd"),
        "PRKeys": ("scsi_cdb_persistentreservein", "PersistentReserveInReadKeys"),
        "PRReservation": ("scsi_cdb_persistentreservein", "PersistentReserveInReadReservation"),
        "PRCaps": ("scsi_cdb_persistentreservein", "PersistentReserveInReportCapabilities"),
        "PRFull": ("scsi_cdb_persistentreservein", "PersistentReserveInReadFullStatus"),
    }[name]
    return getattr(importlib.import_module("pyscsi.pyscsi." + mod), cls)


# ---------------------------------------------------------------------------------------------------------
# deviation-bounded value enumeration over a field table
def field_points(fields, k, fixed=()):
    """yield dicts: all-zero, all-ones, and every assignment deviating from each baseline in <= k fields"""
    flds = [f for f in fields if f[0] not in fixed]
    for base_kind in (0, 1):
        base = {f[0]: (0 if base_kind == 0 else (1 << f[3]) - 1) for f in flds}
        yield dict(base)
        for r in range(1, k + 1):
            for combo in itertools.combinations(flds, r):
                for vals in itertools.product(*[[v for v in bits.alphabet(f[3]) if v != base[f[0]]] for f in combo]):
                    p = dict(base)
                    for f, v in zip(combo, vals):
                        p[f[0]] = v
                    yield p


BLOB_A = bytes(range(0x41, 0x41 + 20))
N_CONTENT = 10


def content(variant, n):
    """n bytes of payload for a text / opaque field: what is INSIDE such a field must come back byte for byte, whatever it is"""
    if variant == 0:
        return bytes(0x41 + i % 26 for i in range(n))
    if variant == 1:
        return bytes(n)
    if variant == 2:
        return b" " * n
    if variant == 3:
        return b"\xff" * n
    if variant == 4:
        return bytes((0x80 + 7 * i) & 0xFF | 0x80 for i in range(n))
    if variant == 5:
        return (b"AB" + bytes(n))[:n]                      # NUL-terminated short text
    if variant == 6:
        return (b"   " + bytes(0x61 + i % 26 for i in range(n)))[:n]     # leading blanks
    if variant == 7:
        return bytes(0 if i == n // 2 else 0x30 + i % 10 for i in range(n))   # a NUL in the middle
    if variant == 8:
        return bytes((0xFF - i) & 0xFF for i in range(n))
    return ("\u00e9\u4e2d" * n).encode("utf-8")[:n]        # multi-byte UTF-8, possibly cut in the middle of a character
BIG_COUNTS = (10, 11, 12, 16, 17, 32, 33)
HUGE_COUNTS = (1200, 4000)      # beyond the interpreter's default recursion depth, and beyond 16 / 64 KiB of list
TIDS = [
    {"protocol_id": 0, "n_port_name": bytes(range(1, 9))},
    {"protocol_id": 3, "eui64_name": bytes(range(0x11, 0x19))},
    {"protocol_id": 4, "initiator_port_identifier": bytes(range(0x21, 0x31))},
    {"protocol_id": 5, "iscsi_name": "iqn.2000-01.verif:abc"},
    {"protocol_id": 5, "tpid_format": 1, "iscsi_name": "iqn.2000-01.verif:x", "iscsi_initiator_session_id": "00023d000001"},
    {"protocol_id": 6, "sas_address": bytes(range(0x31, 0x39))},
    # iSCSI names are UTF-8 (RFC 3722): characters of 2 and 3 bytes, with and without a session id
    {"protocol_id": 5, "iscsi_name": "iqn.2004-10.de.m\u00fcnchen:speicher-\u00e4"},
    {"protocol_id": 5, "tpid_format": 1, "iscsi_name": "iqn.2004-10.de.m\u00fcnchen:speicher-\u00e4", "iscsi_initiator_session_id": "00023d000002"},
    {"protocol_id": 5, "tpid_format": 1, "iscsi_name": "iqn.2000-01.jp.\u4e2d\u6587:x", "iscsi_initiator_session_id": "00023d00000f"},
    # session ids are hexadecimal TEXT: upper case, leading zeros, an odd number of digits, a name that itself contains ",i,0x"
    {"protocol_id": 5, "tpid_format": 1, "iscsi_name": "iqn.2000-01.verif:UPPER", "iscsi_initiator_session_id": "00023D0000FF"},
    {"protocol_id": 5, "tpid_format": 1, "iscsi_name": "iqn.2000-01.verif:zeros", "iscsi_initiator_session_id": "000000000001"},
    {"protocol_id": 5, "tpid_format": 1, "iscsi_name": "iqn.2000-01.verif:odd", "iscsi_initiator_session_id": "23d000001"},
]
DESIGNATORS = [
    ({"designator_type": 0, "code_set": 1}, {"vendor_specific": b"\x01\x02\x03\x04\x05"}),
    ({"designator_type": 1, "code_set": 2}, {"t10_vendor_id": b"VENDORID", "vendor_specific_id": b"serial-123"}),
    ({"designator_type": 2, "code_set": 1}, {"ieee_company_id": 0xABCDEF, "vendor_specific_extension_id": b"\x01\x02\x03\x04\x05"}),
    ({"designator_type": 2, "code_set": 1}, {"ieee_company_id": 0x800001, "vendor_specific_extension_id": b"\x11\x12\x13\x14\x15", "directory_id": b"\xd1\xd2\xd3\xd4"}),
    ({"designator_type": 2, "code_set": 1}, {"identifier_extension": bytes(range(0xE0, 0xE8)), "ieee_company_id": 0x123456, "vendor_specific_extension_id": b"\x21\x22\x23\x24\x25"}),
    ({"designator_type": 3, "code_set": 1}, {"naa": 2, "vendor_specific_identifier_a": 0xABC, "ieee_company_id": 0x123456, "vendor_specific_identifier_b": 0xFEDCBA}),
    ({"designator_type": 3, "code_set": 1}, {"naa": 3, "locally_administered_value": 0x0FEDCBA987654321}),
    ({"designator_type": 3, "code_set": 1}, {"naa": 5, "ieee_company_id": 0xFFFFFF, "vendor_specific_identifier": 0x800000001}),
    ({"designator_type": 3, "code_set": 1}, {"naa": 6, "ieee_company_id": 0x589CFC, "vendor_specific_identifier": 0xC44, "vendor_specific_identifier_extension": 0xC482D1A5F3D2B2B5}),
    ({"designator_type": 4, "code_set": 1, "piv": 1, "association": 1, "protocol_identifier": 6}, {"relative_port": 0x8001}),
    ({"designator_type": 5, "code_set": 1, "piv": 1, "association": 1, "protocol_identifier": 5}, {"target_portal_group": 0x0102}),
    ({"designator_type": 6, "code_set": 1}, {"logical_unit_group": 0xFFFE}),
    ({"designator_type": 7, "code_set": 1}, {"md5_logical_identifier": bytes(range(0x70, 0x80))}),
    ({"designator_type": 8, "code_set": 3, "piv": 1, "association": 2, "protocol_identifier": 5}, {"scsi_name_string": b"iqn.2000-01.verif:name\0\0"}),
]


def build(case):
    """case (JSON-able) -> (format tag, response bytes, expected dict, decode thunk)"""
    fmt = case[0]
    if fmt == "inquiry_std":
        _, vals, blob, tail = case
        blobs = {"t10_vendor_identification": BLOB_A[:8], "product_identification": BLOB_A[:16], "product_revision_level": BLOB_A[:4]} if blob else None
        if blob >= 2:
            blobs = {"t10_vendor_identification": content(blob - 2, 8), "product_identification": content(blob - 2, 16), "product_revision_level": content(blob - 2, 4)}
        data = R.std_inquiry(vals, blobs, size=96) + bytes(tail)
        exp = dict(vals)
        exp.setdefault("additional_length", 91)
        if blobs:
            exp.update(blobs)
        return fmt, data, exp, lambda d: lib("Inquiry").unmarshall_datain(d, evpd=0)
    if fmt == "vpd_fixed":
        _, page, vals, qual, dtype, tail = case
        data = R.vpd_fixed(page, vals, qual, dtype) + bytes(tail)
        exp = dict(vals, peripheral_qualifier=qual, peripheral_device_type=dtype, page_code=page)
        return "vpd%02x" % page, data, exp, lambda d: lib("Inquiry").unmarshall_datain(d, evpd=1)
    if fmt == "vpd00":
        _, pages, tail = case
        data = R.vpd(0x00, bytes(pages)) + bytes(tail)
        return fmt, data, {"page_code": 0, "vpd_pages": list(pages)}, lambda d: lib("Inquiry").unmarshall_datain(d, evpd=1)
    if fmt == "vpd80":
        _, n, tail = case[:3]
        sn = bytes((0x30 + i % 10) for i in range(n)) if len(case) < 4 else content(case[3], n)
        data = R.vpd(0x80, sn) + bytes(tail)
        return fmt, data, {"page_code": 0x80, "unit_serial_number": sn}, lambda d: lib("Inquiry").unmarshall_datain(d, evpd=1)
    if fmt == "vpd83":
        _, idxs, tail = case[:3]
        descs = []
        exp = []
        for i in idxs:
            h, d = DESIGNATORS[i]
            if len(case) > 3:
                # the opaque / text parts of the designator carry the given content (same lengths)
                d = {k: (content(case[3], len(v)) if isinstance(v, (bytes, bytearray)) else v) for k, v in d.items()}
                if "scsi_name_string" in d and case[3] != 1:
                    d["scsi_name_string"] = d["scsi_name_string"][:-1] + b"\0"      # the standard requires the terminator
            h = dict(h)
            descs.append((h, d))
            e = {k: v for k, v in h.items() if k != "protocol_identifier"}
            e.setdefault("piv", 0)
            e.setdefault("association", 0)
            if h.get("piv") and h.get("association") in (1, 2):
                e["protocol_identifier"] = h["protocol_identifier"]
            e["designator"] = dict(d)
            exp.append(e)
        data = R.vpd_83(descs) + bytes(tail)
        return fmt, data, {"page_code": 0x83, "designator_descriptors": exp}, lambda d: lib("Inquiry").unmarshall_datain(d, evpd=1)
    if fmt == "vpd89":
        _, variant, tail = case
        vendor, product, rev = b"ATA     ", b"VERIF DISK MODEL", b"FW01"
        fis = bytearray(20)
        fis[0] = 0x34
        fis[4], fis[5], fis[6], fis[7], fis[12] = 0x11, 0x22, 0x33, 0xA0, 0x01
        ident = bytearray(512)
        ident[0:2] = b"\x40\x00"
        ident[20:40] = b"ESIRLAN-MUEBR 1 2  3"[:20]
        ident[46:54] = b"WFER.V10"
        ident[54:94] = b"OMED LANEM FO HT EIDKS                  "[:40]
        data = R.vpd_89(vendor, product, rev, bytes(fis), 0xEC, bytes(ident)) + bytes(tail)
        exp = {"page_code": 0x89, "sat_vendor_identification": vendor, "sat_product_identification": product, "sat_product_rev_lvl": rev,
               "signature": {"lba_low": 0x11, "lba_mid": 0x22, "lba_high": 0x33, "device": 0xA0, "sector_count": 0x01},
               "identify": {"serial_number": bytes(ident[20:40]), "firmware_rev": bytes(ident[46:54]), "model_number": bytes(ident[54:94])}}
        return fmt, data, exp, lambda d: lib("Inquiry").unmarshall_datain(d, evpd=1)
    if fmt in ("mode6", "mode10"):
        _, page, sub, vals, hdr, nbd, ps, tail = case
        ten = fmt == "mode10"
        bd = bytes([0x5A]) * (8 * nbd)
        data = R.mode_data(ten, hdr, bd, [R.mode_page(page, sub, vals, ps)], tail)
        mp = dict(vals, ps=ps, spf=0 if sub is None else 1, page_code=page)
        if sub is not None:
            mp["sub_page_code"] = sub
        exp = dict(hdr, mode_pages=[mp])
        cls = "ModeSense10" if ten else "ModeSense6"
        tag = "%s/page%02x%s" % (fmt, page, "" if sub is None else "_%02x" % sub)
        return tag, data, exp, lambda d: lib(cls).unmarshall_datain(d)
    if fmt == "readcap10":
        _, vals, tail = case
        data = R.put(bytes(8), R.READCAP10, vals) + bytes(tail)
        return fmt, data, dict(vals), lambda d: lib("ReadCapacity10").unmarshall_datain(d)
    if fmt == "readcap16":
        _, vals, tail = case
        data = R.put(bytes(32), R.READCAP16, vals) + bytes(tail)
        return fmt, data, dict(vals), lambda d: lib("ReadCapacity16").unmarshall_datain(d)
    if fmt == "getlbastatus":
        _, descs, tail = case
        data = R.get_lba_status(descs, tail)
        return fmt, data, {"lbas": [dict(d) for d in descs]}, lambda d: lib("GetLBAStatus").unmarshall_datain(d)
    if fmt == "reportluns":
        _, luns, tail = case
        data = R.report_luns(luns, tail)
        return fmt, data, {"luns": [{"lun%d" % i: l} for i, l in enumerate(luns)]}, lambda d: lib("ReportLuns").unmarshall_datain(d)
    if fmt == "rtpg":
        _, groups, ext, tt, tail = case
        data = R.rtpg([(g, p) for g, p in groups], ext, tt, tail)
        exp = {"target_port_group_descriptors": [dict(g, target_port_count=len(p), target_ports=[{"relative_target_port_id": x} for x in p])
                                                 for g, p in groups]}
        if ext:
            exp["format_type"] = 1
            exp["implicit_transition_time"] = tt
        else:
            exp["format_type"] = 0
        return "rtpg_ext" if ext else "rtpg", data, exp, lambda d: lib("ReportTargetPortGroups").unmarshall_datain(d)
    if fmt == "reportpriority":
        _, descs, tail = case
        data = R.report_priority([(v, R.transport_id(TIDS[t])) for v, t in descs], tail)
        exp = {"priority_descriptors": [dict(v) for v, t in descs]}
        return fmt, data, exp, lambda d: lib("ReportPriority").unmarshall_datain(d)
    if fmt == "res":
        _, first, count, pages, tail = case
        exp = {"first_element_address": first, "num_elements": count, "element_status_pages": []}
        for (et, pv, av, descs) in pages:
            eds = []
            for v in descs:
                e = {k: (bytes.fromhex(x[4:]) if isinstance(x, str) and x.startswith("hex:") else x) for k, x in v.items()}
                eds.append(e)
            exp["element_status_pages"].append({"element_type": et, "pvoltag": pv, "avoltag": av, "element_descriptors": eds})
        pages2 = [(et, pv, av, [{k: (bytes.fromhex(x[4:]) if isinstance(x, str) and x.startswith("hex:") else x) for k, x in v.items()} for v in descs])
                  for (et, pv, av, descs) in pages]
        data = R.read_element_status(first, count, pages2, tail)
        return fmt, data, exp, lambda d: lib("ReadElementStatus").unmarshall_datain(d)
    if fmt == "prkeys":
        _, gen, keys, tail = case
        return fmt, R.pr_read_keys(gen, keys, tail), {"pr_generation": gen, "reservation_keys": list(keys)}, lambda d: lib("PRKeys").unmarshall_datain(d)
    if fmt == "prres":
        _, gen, res, tail = case
        exp = {"pr_generation": gen}
        if res:
            exp.update(res)
        return fmt, R.pr_read_reservation(gen, res, tail), exp, lambda d: lib("PRReservation").unmarshall_datain(d)
    if fmt == "prcaps":
        _, vals, mask, tail = case
        exp = dict(vals, pr_type_mask=dict(mask))
        return fmt, R.pr_report_capabilities(vals, mask, tail), exp, lambda d: lib("PRCaps").unmarshall_datain(d)
    if fmt == "prfull":
        _, gen, descs, tail = case
        data = R.pr_read_full_status(gen, [(v, R.transport_id(TIDS[t])) for v, t in descs], tail)
        exp = {"pr_generation": gen, "full_status": [dict(v, transport_id=dict(TIDS[t], tpid_format=TIDS[t].get("tpid_format", 0))) for v, t in descs]}
        return fmt, data, exp, lambda d: lib("PRFull").unmarshall_datain(d)
    if fmt == "discinfo":
        _, dtype, vals, blob, tail = case
        blobs = {"last_session_lead_in_start_address": BLOB_A[:4], "last_possible_lead_out_start_address": BLOB_A[4:8], "disc_bar_code": BLOB_A[8:16]} if blob else None
        data = R.disc_information(dtype, vals, blobs, tail)
        exp = dict(vals, disc_information_data_type=dtype)
        if blobs and dtype == 0:
            exp.update(blobs)
        return "discinfo%d" % dtype, data, exp, lambda d: lib("ReadDiscInformation").unmarshall_datain(d)
    if fmt == "readcd":
        _, est, mcsb, c2, sc, lba, tl, tail = case
        data, exp = readcd_response(est, mcsb, c2, sc, lba, tl)
        data += bytes(tail)
        return "readcd/est%d" % est, data, exp, lambda d: lib("ReadCd").unmarshall_datain(d, lba=lba, tl=tl, est=est, mcsb=mcsb, c2ei=c2, scsb=sc)
    raise ValueError(fmt)


# MMC 'Number of bytes returned based on data selection field': for sector types that lack a field, a selection that names it is
# served as the selection given here (byte 9 bits 7-3 -> byte 9 bits 7-3).  Mode 1 (2) and Mode 2 formless (3) have no sub-header;
# Mode 2 formless has no EDC/ECC.
READCD_MAPPED = {
    2: {0x40: 0x00, 0x50: 0x10, 0x58: 0x18, 0x60: 0x20, 0x70: 0x30, 0x78: 0x38, 0xE0: 0xA0, 0xF0: 0xB0, 0xF8: 0xB8},
    3: {0x38: 0x30, 0x58: 0x10, 0xB8: 0xB0, 0xF8: 0xB0, 0x40: 0x00, 0x50: 0x10, 0x60: 0x20, 0x70: 0x30, 0x78: 0x30, 0xE0: 0xA0, 0xF0: 0xB0},
}
READCD_LEGAL = [0x00, 0x10, 0x18, 0x20, 0x30, 0x38, 0x40, 0x50, 0x58, 0x60, 0x70, 0x78, 0xA0, 0xB0, 0xB8, 0xE0, 0xF0, 0xF8]


def readcd_layouts():
    """(expected sector type, 5-bit main channel selection) pairs the decoder is judged on"""
    out = [(1, 0x02), (1, 0x1F), (1, 0x03), (1, 0x1E)]
    for est in (2, 3, 4, 5):
        for b9 in READCD_LEGAL:
            if est in (4, 5) and b9 in (0x30, 0x38, 0xB0, 0xB8):
                continue            # illegal for XA sectors
            if est == 3 and b9 == 0x18:
                continue            # (user data + EDC/ECC for a sector type without EDC/ECC: the library refuses it by design; not judged)
            if est == 5 and b9 & 0x08 and b9 not in (0xF8, 0x18):
                continue            # (Form 2 EDC selections other than the two already judged: sizes not asserted here)
            out.append((est, b9 >> 3))
    return out


def readcd_response(est, mcsb, c2, sc, lba, tl):
    data = b""
    exp = {}
    mcsb = READCD_MAPPED.get(est, {}).get(mcsb << 3, mcsb << 3) >> 3
    user = {1: 2352, 2: 2048, 3: 2336, 4: 2048, 5: 2324}[est]
    for i in range(tl):
        s = {}
        sec = b""
        seed = (lba + i) & 0xFF

        def chunk(n, tag):
            return bytes(((seed + tag + j) & 0xFF) for j in range(n))
        if est != 1:
            if mcsb & 0x10:
                s["sync"] = chunk(12, 1)
                sec += s["sync"]
            if mcsb & 0x04:
                hdr = bytes([0x01, 0x02, (0x03 + i) & 0xFF, {2: 1, 3: 2, 4: 2, 5: 2}[est]])
                s["sector-header"] = {"minute": hdr[0], "second": hdr[1], "frame": hdr[2], "mode": hdr[3]}
                sec += hdr
            if mcsb & 0x08:
                sub = bytes([0x07, 0x08, 0x09 + i, 0x0A])
                s["sector-subheader"] = [{"file-number": 7, "channel-number": 8, "sub-mode": 9 + i, "data": sub}] * 2
                sec += sub + sub
        if mcsb & 0x02 or est == 1:
            s["data"] = chunk(user, 7)
            sec += s["data"]
        if mcsb & 0x01 and est != 1:
            s["edc"] = chunk(4, 11)
            sec += s["edc"]
            if est == 2:
                sec += bytes(8)
            if est in (2, 4):
                s["p-parity"] = chunk(172, 13)
                s["q-parity"] = chunk(104, 17)
                sec += s["p-parity"] + s["q-parity"]
        if c2 == 1:
            s["c2ei-data"] = chunk(294, 19)
            sec += s["c2ei-data"]
        if c2 == 2:
            s["c2ei"] = {"data": chunk(296, 23)}
            sec += s["c2ei"]["data"]
        if sc == 2:
            q = bytes([0x41, 0x02, 0x01, 0x10, 0x20, 0x30, 0x00, 0x11, 0x21, 0x31, 0xAB, 0xCD, 0, 0, 0, 0x80])
            s["subchannel"] = {"c": 4, "adr": 1, "track-number": 2, "index-number": 1, "min": 0x10, "sec": 0x20, "frame": 0x30, "zero": 0,
                               "amin": 0x11, "asec": 0x21, "aframe": 0x31, "crc": 0xABCD, "p": 1, "data": q}
            sec += q
        if sc == 4:
            s["subchannel"] = {"data": chunk(96, 29)}
            sec += s["subchannel"]["data"]
        exp[lba + i] = s
        data += sec
    return data, exp


class _CdDrive(object):
    """a plain device object: answers INQUIRY as a CD/DVD device and READ CD with the given bytes, transferring at most as many
    bytes as the data-in buffer the library offers (what every transport does)"""

    def __init__(self, answer):
        import pyscsi.pyscsi.scsi_enum_command as E
        self.opcodes = E.spc
        self.answer = answer
        self.offered = None

    def execute(self, cmd, en_raw_sense=False):
        if cmd.cdb[0] == 0x12 and len(cmd.datain):
            cmd.datain[0] = 0x05
            if len(cmd.datain) > 4:
                cmd.datain[4] = 31
        elif cmd.cdb[0] == 0xBE:
            self.offered = len(cmd.datain)
            n = min(len(self.answer), len(cmd.datain))
            cmd.datain[:n] = self.answer[:n]

    def close(self):
        pass


def readcd_via_facade(case, data, exp, fmt):
    """the same conformant answer on its way through SCSI.readcd(): the buffer the library offers must hold it, the result must be it"""
    from pyscsi.pyscsi.scsi import SCSI
    _, est, mcsb, c2, sc, lba, tl, tail = case
    if tl == 0:
        return []
    dev = _CdDrive(data[:len(data) - tail] if tail else data)
    try:
        cmd = SCSI(dev).readcd(lba, tl, est=est, mcsb=mcsb, c2ei=c2, scsb=sc)
    except Exception as e:   # noqa: BLE001
        return [("%s/facade_raises" % fmt, "%s through SCSI.readcd raised %s: %s" % (fmt, type(e).__name__, e))]
    out = []
    if dev.offered is not None and dev.offered < len(dev.answer):
        out.append(("%s/facade_buffer_too_small" % fmt, "%s (est=%d mcsb=%#x c2ei=%d scsb=%d, %d sectors): the drive answers with %d bytes, the library offered a %d byte buffer"
                    % (fmt, est, mcsb, c2, sc, tl, len(dev.answer), dev.offered)))
    compare(exp, cmd.result, "", out, fmt + "/facade")
    return out


def run_vpd_short(page, plen, tail):
    """a fixed-layout VPD page of a device built to an older standard: PAGE LENGTH shorter than the layout the library knows, the rest
    of the data-in buffer holding whatever was there before (stale bytes).  Fields that lie within the page are what the device sent;
    fields that lie wholly beyond PAGE LENGTH are not reported (0 / absent) - nothing beyond the page is read"""
    fields, size = R.VPD_FIXED[page]
    ones = {k: (1 << w) - 1 for (k, b, msb, w) in fields}
    full = R.vpd_fixed(page, ones)
    buf = bytearray(full[:4 + plen]) + bytes([tail]) * (size - 4 - plen + 8)
    buf[2:4] = plen.to_bytes(2, "big")
    Inq = lib("Inquiry")
    try:
        d = Inq.unmarshall_datain(bytearray(buf), evpd=1)
    except Exception as e:   # noqa: BLE001
        return [("vpd_short/raises", "VPD page %02Xh with PAGE LENGTH %d in a buffer with a stale tail: raised %s: %s" % (page, plen, type(e).__name__, e))]
    out = []
    end = 4 + plen
    for (k, b, msb, w) in fields:
        first, last = b, b + (w - 1 - msb + 7) // 8 if w > msb + 1 else b
        last = b + max(0, (w - (msb + 1) + 7) // 8)
        if first >= end:
            if d.get(k):
                out.append(("vpd_short/beyond_page/%02x" % page, "VPD page %02Xh with PAGE LENGTH %d (tail %02Xh): %s lies beyond the page and is reported as %#x"
                            % (page, plen, tail, k, d.get(k))))
        elif last < end:
            if d.get(k) != ones[k]:
                out.append(("vpd_short/within_page/%02x" % page, "VPD page %02Xh with PAGE LENGTH %d: %s = %r, device sent %#x" % (page, plen, k, d.get(k), ones[k])))
    return out[:3]


def run_vpd83_types(dtype, pos):
    """a Device Identification page holding a designator of a type the library has no table for (0Ah UUID of SPC-5, 0Bh-0Fh
    reserved) before / between / after designators it knows: every descriptor inside PAGE LENGTH is reported, in order, the known
    ones with their values"""
    def dd(t, payload, codeset=1):
        return bytes([codeset, t, 0, len(payload)]) + payload
    known = [dd(3, bytes.fromhex("5000c50012345678")), dd(4, bytes([0, 0, 0, 7])), dd(5, bytes([0, 0, 0, 9]))]
    odd = dd(dtype, bytes([0x10, 0] + [0xAB] * 16))
    descs = known[:pos] + [odd] + known[pos:]
    page = b"".join(descs)
    buf = bytes([0, 0x83]) + len(page).to_bytes(2, "big") + page + bytes(20)
    Inq = lib("Inquiry")
    try:
        d = Inq.unmarshall_datain(bytearray(buf), evpd=1)
    except Exception as e:   # noqa: BLE001
        return [("vpd83_types/raises", "VPD 83h with a designator of type %02Xh at position %d: raised %s: %s" % (dtype, pos, type(e).__name__, e))]
    got = [x.get("designator_type") for x in d.get("designator_descriptors", [])]
    want = [3, 4, 5][:pos] + [dtype] + [3, 4, 5][pos:]
    out = []
    if got != want:
        out.append(("vpd83_types/descriptors", "VPD 83h holds designators of types %r inside PAGE LENGTH, the decoder reports %r" % (want, got)))
    else:
        ds = d["designator_descriptors"]
        vals = [x.get("designator") for x in ds if x.get("designator_type") in (3, 4, 5)]
        if vals != [{"naa": 5, "ieee_company_id": 3152, "vendor_specific_identifier": 305419896}, {"relative_port": 7}, {"target_portal_group": 9}]:
            out.append(("vpd83_types/values", "VPD 83h with a type %02Xh designator at position %d: the known designators decode to %r" % (dtype, pos, vals)))
    return out


def run_designator_table_history(value):
    """the public DESIGNATOR table edited the documented way (an alias name added for a designator type, the library's own name removed
    and added back - its value unchanged throughout): a Device Identification page decodes as before"""
    Inq = lib("Inquiry")
    table = Inq.DESIGNATOR
    own = next((k for k in table.keys if getattr(table, k) == value), None)
    if own is None:
        return []

    def dd(t, payload, codeset=1):
        return bytes([codeset, t, 0, len(payload)]) + payload
    page = dd(4, bytes([0, 0, 0, 7])) + dd(5, bytes([0, 0, 0, 9])) + dd(6, bytes([0, 0, 0x0A, 0x0B])) + dd(3, bytes.fromhex("5000c50012345678"))
    buf = bytes([0, 0x83]) + len(page).to_bytes(2, "big") + page
    before = _freeze(Inq.unmarshall_datain(bytearray(buf), evpd=1))
    out = []
    try:
        table.add("VERIF_ALIAS_%d" % value, value)
        step1 = _freeze(Inq.unmarshall_datain(bytearray(buf), evpd=1))
        table.remove(own)
        table.add(own, value)
        step2 = _freeze(Inq.unmarshall_datain(bytearray(buf), evpd=1))
        for label, got in (("an alias was added", step1), ("the library's own name was removed and added back", step2)):
            if got != before:
                out.append(("designator_table_history/%d" % value, "after %s for designator type %d (values unchanged) a VPD 83h page decodes differently" % (label, value)))
                break
    except Exception as e:   # noqa: BLE001
        out.append(("designator_table_history/raises", "designator type %d: %s: %s" % (value, type(e).__name__, e)))
    finally:
        try:
            table.remove("VERIF_ALIAS_%d" % value)
        except Exception:   # noqa: BLE001
            pass
        if own not in table.keys:
            table.add(own, value)
    return out


def _freeze(x):
    if isinstance(x, dict):
        return tuple(sorted((str(k), _freeze(v)) for k, v in x.items()))
    if isinstance(x, (list, tuple)):
        return tuple(_freeze(v) for v in x)
    if isinstance(x, (bytes, bytearray)):
        return bytes(x)
    return x


def run_case(case, obs=None):
    if case[0] == "designator_table_history":
        return run_designator_table_history(case[1])
    if case[0] == "vpd83_types":
        return run_vpd83_types(case[1], case[2])
    if case[0] == "vpd_short":
        return run_vpd_short(case[1], case[2], case[3])
    if case[0] == "aba":
        return run_aba_star(case[1], case[2] if case[2] and isinstance(case[2][0], list) else [case[2]])
    fmt, data, exp, dec = build(case)
    out = []
    buf = bytearray(data)
    try:
        got = dec(buf)
    except Exception as e:   # noqa: BLE001
        return [("%s/raises" % fmt, "%s: decoding a conformant response (%s...) raised %s: %s" % (fmt, data[:24].hex(), type(e).__name__, e))]
    if obs is not None:
        obs.append(hash(data))
        obs.append((fmt, exp, got))
    compare(exp, got, "", out, fmt)
    if case[0] == "readcd" and not out:
        out += readcd_via_facade(case, data, exp, fmt)
    if bytes(buf) != bytes(data):
        out.append(("%s/input_buffer_modified" % fmt, "%s: decoding changed the data-in buffer it was given" % fmt))
    elif not out:
        # the decoded values are the caller's from now on: the next transfer into the same buffer must not show in them
        f1 = freeze(got)
        for i in range(len(buf)):
            buf[i] ^= 0xFF
        if freeze(got) != f1:
            out.append(("%s/result_aliases_buffer" % fmt, "%s: the decoded result changed when the data-in buffer was overwritten afterwards "
                        "(some value is a view into the buffer, not a copy)" % fmt))
    return out


def replay(case):
    return run_case(_unjson(case))


def _unjson(x):
    if isinstance(x, list):
        return [_unjson(i) for i in x]
    if isinstance(x, dict):
        return {(int(k) if isinstance(k, str) and k.lstrip("-").isdigit() else k): _unjson(v) for k, v in x.items()}
    return x


# ---------------------------------------------------------------------------------------------------------
ABA_MAX = 40
MAXTASKS = 1     # every partition in a freshly forked worker (the ABA partitions need a process in which nothing was decoded yet)

ABA_GROUPS = {
    # group -> C04 partitions whose cases share a decoder class (or, for "all", one case of every format)
    "inquiry": ["inquiry_std", "vpd86", "vpdb0", "vpdb1", "vpdb2", "vpdb3", "vpd_lists", "vpd83", "vpd89"],
    "mode": ["mode6", "mode10"], "discinfo": ["discinfo"], "prin": ["prin"], "rtpg": ["rtpg"], "res": ["res"], "readcd": ["readcd"],
    "lists": ["getlbastatus", "reportluns", "reportpriority", "readcap"],
    "all": ["inquiry_std", "vpd83", "mode6", "mode10", "readcap", "getlbastatus", "reportluns", "rtpg", "reportpriority", "res", "prin",
            "discinfo", "readcd"],
}


def freeze(x):
    if isinstance(x, dict):
        return tuple(sorted((repr(k), freeze(v)) for k, v in x.items()))
    if isinstance(x, (list, tuple)):
        return tuple(freeze(v) for v in x)
    if isinstance(x, (bytes, bytearray, memoryview)):
        return bytes(x)
    return x


def aba_representatives(group, per_tag=2):
    """a few structurally different well-formed cases per format tag of the group"""
    reps, seen = [], {}
    for part in ABA_GROUPS[group]:
        for case in gen([part], "quick"):
            try:
                fmt, data, exp, dec = build(case)
            except Exception:
                continue
            tag = (fmt, case[0], case[1] if case[0] in ("vpd_fixed", "discinfo", "prkeys") else None,
                   (case[1], case[2]) if case[0] in ("mode6", "mode10") else None,
                   (case[1], case[2]) if case[0] == "readcd" else None, tuple(case[3][0][:3]) if case[0] == "res" and case[3] else None)
            n = seen.get(tag, 0)
            # prefer cases with content: skip the all-zero first point of a field enumeration
            if n < per_tag and any(data[4:]):
                seen[tag] = n + 1
                reps.append(case)
    if group == "all":
        firsts, tags = [], set()
        for c in reps:
            if c[0] not in tags:
                tags.add(c[0])
                firsts.append(c)
        reps = firsts
    return reps[:40]


def run_aba(case_a, case_b):
    """decode A, decode B, decode A again (see run_aba_star); kept for replaying a single pair"""
    return run_aba_star(case_a, [case_b])


def run_aba_star(case_a, others):
    """In a process where nothing else was decoded yet: decode A (reference), then for every B: decode B, decode A again.
    Every later result for A must be identical to the reference in every key (nothing may depend on what was decoded in between),
    and the reference object itself must not change.  Returns violations (first divergence per B)."""
    fa, da, ea, deca = build(case_a)
    out = []
    try:
        r1 = deca(bytearray(da))
    except Exception as e:   # noqa: BLE001
        return [("aba/%s/raises" % fa, "decoding %s raised %s: %s" % (fa, type(e).__name__, e))]
    f1 = freeze(r1)
    for case_b in others:
        fb, db, eb, decb = build(case_b)
        try:
            decb(bytearray(db))
            r2 = deca(bytearray(da))
        except Exception as e:   # noqa: BLE001
            out.append(("aba/%s/raises" % fa, "decoding %s, %s, %s in sequence raised %s: %s" % (fa, fb, fa, type(e).__name__, e)))
            break
        if freeze(r1) != f1:
            out.append(("aba/%s/earlier_result_changed" % fa, "the result of decoding a %s response changed after a %s response was decoded" % (fa, fb)))
            break
        if freeze(r2) != f1:
            k1 = set(r1) if isinstance(r1, dict) else set()
            k2 = set(r2) if isinstance(r2, dict) else set()
            out.append(("aba/%s/depends_on_history" % fa, "decoding the same %s response before and after a %s response gives different results "
                        "(keys only before: %r, only after: %r)" % (fa, fb, sorted(map(str, k1 - k2))[:6], sorted(map(str, k2 - k1))[:6])))
            break
    return out


def partitions(tier):
    # one partition (= one freshly forked process) per (group, reference response A)
    return [["aba", g, i] for g in ABA_GROUPS for i in range(ABA_MAX)] + [[n] for n in ("inquiry_std", "vpd86", "vpdb0", "vpdb1", "vpdb2", "vpdb3", "vpd_lists", "vpd83", "vpd89", "mode6", "mode10",
                          "readcap", "getlbastatus", "reportluns", "rtpg", "reportpriority", "res", "prin", "discinfo", "readcd", "vpd_short")]


def gen(part, tier):
    k = bounds(tier)["k"]
    name = part[0]
    if name == "inquiry_std":
        for vals in field_points(R.STD_INQUIRY, k, fixed=("additional_length",)):
            yield ["inquiry_std", vals, 1, 0]
        yield ["inquiry_std", {}, 0, 0]
        yield ["inquiry_std", {"peripheral_device_type": 5}, 1, 32]
        for cv in range(N_CONTENT):
            yield ["inquiry_std", {"peripheral_device_type": 0, "version": 6}, 2 + cv, 0]
    elif name in ("vpd86", "vpdb0", "vpdb1", "vpdb2", "vpdb3"):
        page = int(name[3:], 16)
        for vals in field_points(R.VPD_FIXED[page][0], k):
            yield ["vpd_fixed", page, vals, 0, 0, 0]
        for q, t in ((1, 0x1F), (3, 5), (0, 0x0E)):
            yield ["vpd_fixed", page, {}, q, t, 16]
    elif name == "vpd_lists":
        for n in (255, 256, 257, 600):
            yield ["vpd80", n, 0]
        for cv in range(N_CONTENT):
            for n in (1, 4, 8, 20, 33):
                yield ["vpd80", n, 0, cv]
        yield ["vpd00", list(range(256)), 0]
        yield ["vpd00", [0x00, 0x80, 0x80, 0x83, 0x83, 0x83], 0]
        for n in range(0, 12):
            for tail in (0, 9):
                yield ["vpd00", [0x00, 0x80, 0x83, 0x86, 0x89, 0xB0, 0xB1, 0xB2, 0xB3, 0xC0, 0xFF][:n], tail]
                yield ["vpd80", n * 3, tail]
    elif name == "vpd83":
        n = len(DESIGNATORS)
        for i in range(n):
            for tail in (0, 7):
                yield ["vpd83", [i], tail]
        for i, j in itertools.permutations(range(n), 2):
            yield ["vpd83", [i, j], 0]
        yield ["vpd83", [], 0]
        yield ["vpd83", [], 20]
        yield ["vpd83", list(range(n)), 3]
        for cv in range(N_CONTENT):
            for i in range(n):
                if any(isinstance(v, (bytes, bytearray)) for v in DESIGNATORS[i][1].values()):
                    yield ["vpd83", [i], 0, cv]
            yield ["vpd83", [0, 1, 4, n - 2, n - 1], 2, cv]
        for cnt in BIG_COUNTS[:5] + HUGE_COUNTS:
            yield ["vpd83", [(i * 5) % n for i in range(cnt)] if cnt < 100 else [9] * cnt, 0]
        if k > 1:
            for t in itertools.permutations(range(0, n, 2), 3):
                yield ["vpd83", list(t), 5]
    elif name == "vpd89":
        yield ["vpd89", 0, 0]
        yield ["vpd89", 0, 4]
    elif name in ("mode6", "mode10"):
        hdrs = [{"medium_type": 0, "device_specific_parameter": 0}, {"medium_type": 0xA5, "device_specific_parameter": 0x90}]
        if name == "mode10":
            hdrs.append({"medium_type": 1, "device_specific_parameter": 0x10, "longlba": 1})
        for (page, sub), (fields, plen) in R.MODE_PAGES.items():
            for vals in field_points(fields, k):
                yield [name, page, sub, vals, hdrs[0], 0, 0, 0]
            for hdr in hdrs:
                for nbd in (0, 1, 2):
                    for ps in (0, 1):
                        for tail in (0, 6):
                            yield [name, page, sub, {fields[0][0]: 1}, hdr, nbd, ps, tail]
    elif name == "readcap":
        for vals in field_points(R.READCAP10, max(k, 2)):
            yield ["readcap10", vals, 0]
        for vals in field_points(R.READCAP16, k):
            yield ["readcap16", vals, 0]
        yield ["readcap10", {"returned_lba": 1, "block_length": 512}, 8]
        yield ["readcap16", {"returned_lba": 1, "block_length": 4096}, 32]
    elif name == "getlbastatus":
        for vals in field_points(R.LBA_STATUS_DESC, max(k, 2)):
            yield ["getlbastatus", [vals], 0]
        base = [{"lba": 0x10 * i, "num_blocks": 0x10, "p_status": i % 3} for i in range(4)]
        for n in range(0, 5):
            for tail in (0, 8, 16):
                yield ["getlbastatus", base[:n], tail]
        for n in BIG_COUNTS + HUGE_COUNTS:
            yield ["getlbastatus", [{"lba": 0x1000 * i, "num_blocks": 0x10 + i, "p_status": i % 3} for i in range(n)], 0]
    elif name == "reportluns":
        luns = [0, 0x0001000000000000, 0x4001000000000000, 0xC101000000000000, 0xFFFFFFFFFFFFFFFF]
        for n in range(0, 6):
            for tail in (0, 4, 8, 24):
                yield ["reportluns", luns[:n], tail]
        for v in bits.alphabet(64):
            yield ["reportluns", [v], 0]
            yield ["reportluns", [1, v], 0]
        for n in range(2, 4):
            for ls in itertools.product((0, 1, 0x0001000000000000), repeat=n):       # (equal entries included)
                yield ["reportluns", list(ls), 0]
        for n in BIG_COUNTS + (255, 256, 257) + HUGE_COUNTS + (8300,):          # count boundaries (two-digit indices, byte counts / entry counts around 256), long lists
            yield ["reportluns", [(i << 48) | (0x100 + i) for i in range(n)], 0]
            yield ["reportluns", [(i << 48) | (0x100 + i) for i in range(n)], 8]
    elif name == "rtpg":
        for vals in field_points(R.TPG_DESC, k, fixed=("target_port_count",)):
            yield ["rtpg", [[vals, [1]]], 0, 0, 0]
        g = [{"asymmetric_access_state": 0, "target_port_group": 1, "pref": 1}, {"asymmetric_access_state": 2, "target_port_group": 0x102},
             {"asymmetric_access_state": 0xF, "target_port_group": 0xFFFF, "status_code": 2}]
        ports = [[], [1], [1, 2], [0x8001, 2, 0xFFFF]]
        for n in HUGE_COUNTS:
            yield ["rtpg", [[dict(g[i % 3], target_port_group=(0x200 + i) & 0xFFFF), [(i & 0x7FFF) + 1]] for i in range(n)], 0, 0, 0]
        for n in BIG_COUNTS:
            yield ["rtpg", [[g[0], [0x100 + i for i in range(n)]]], 0, 0, 0]
            yield ["rtpg", [[dict(g[i % 3], target_port_group=0x200 + i), [i + 1]] for i in range(n)], 1, 5, 0]
        for ng in range(0, 4):
            for pc in itertools.product(range(4), repeat=ng):
                for ext in (0, 1):
                    for tail in (0, 12):
                        yield ["rtpg", [[g[i], ports[pc[i]]] for i in range(ng)], ext, 0x3C if ext else 0, tail]
    elif name == "reportpriority":
        for vals in field_points(R.PRIORITY_DESC, max(k, 2)):
            yield ["reportpriority", [[vals, 0]], 0]
        for n in BIG_COUNTS + HUGE_COUNTS[:1]:
            yield ["reportpriority", [[{"current_priority": i & 0xF, "rtpi": 0x300 + i}, i % len(TIDS)] for i in range(n)], 0]
        for n in range(0, 4):
            for ts in itertools.product(range(len(TIDS)), repeat=n):
                for tail in (0, 8):
                    yield ["reportpriority", [[{"current_priority": (3 + i) & 0xF, "rtpi": 0x100 + i}, t] for i, t in enumerate(ts)], tail]
    elif name == "res":
        for vals in field_points(R.ES_DESC, k):
            yield ["res", 1, 1, [[2, 0, 0, [vals]]], 0]
        for n in BIG_COUNTS + HUGE_COUNTS:
            yield ["res", 0x10, n, [[2, 0, 0, [{"element_address": 0x10 + i, "full": i & 1, "access": 1, "source_storage_element_address": 0x500 + i}
                                               for i in range(n)]]], 0]
        for et, extra in ((1, {}), (2, {"access": 1}), (3, {"oir": 1, "cmc": 1, "inenab": 1, "exenab": 1, "access": 1, "impexp": 1}), (4, {"access": 1})):
            for pv in (0, 1):
                for av in (0, 1):
                    for nd in range(0, 4):
                        descs = []
                        for i in range(nd):
                            v = dict({"element_address": 0x100 + i, "full": i & 1, "source_storage_element_address": 0x20 + i}, **extra)
                            if pv:
                                v["primary_volume_tag"] = "hex:" + ((b"PVOL%02d" % i).ljust(36, b" ") if nd != 2 else content((i + et) % N_CONTENT, 36)).hex()
                            if av:
                                v["alternate_volume_tag"] = "hex:" + (b"AVOL%02d" % i).ljust(36, b" ").hex()
                            descs.append(v)
                        for tail in (0, 16):
                            yield ["res", 0x100, nd, [[et, pv, av, descs]], tail]
                        if nd:
                            yield ["res", 0x100, nd + 1, [[et, pv, av, descs], [2, 0, 0, [{"element_address": 0x400, "full": 1, "access": 1}]]], 0]
    elif name == "prin":
        for n in range(0, 4):
            for tail in (0, 8):
                yield ["prkeys", 0x01020304, [0x1122334455667788, 1, 0xFFFFFFFFFFFFFFFF][:n], tail]
        for n in (255, 256, 257):
            yield ["prkeys", 9, [0xA000 + i for i in range(n)], 0]
        # equal entries are legitimate (one key registered through several I_T nexuses) and must be reported as often as listed
        for n in range(1, 5):
            for ks in itertools.product((0, 1, 0x1122334455667788), repeat=n):
                yield ["prkeys", 2, list(ks), 0]
        for n in (2, 3, 17):
            yield ["prfull", 9, [[{"reservation_key": 0xB000, "r_holder": 0, "scope": 0, "type": 5, "relative_target_port_id": 1}, 0] for i in range(n)], 0]
        for n in HUGE_COUNTS:
            yield ["prkeys", 9, [0xA000 + i for i in range(n)], 0]
        yield ["prfull", 9, [[{"reservation_key": 0xB000 + i, "r_holder": i & 1, "scope": 0, "type": 5, "relative_target_port_id": i}, i % len(TIDS)]
                             for i in range(HUGE_COUNTS[0])], 0]
        for n in BIG_COUNTS:
            yield ["prkeys", 9, [0xA000 + i for i in range(n)], 0]
            yield ["prfull", 9, [[{"reservation_key": 0xB000 + i, "r_holder": i & 1, "scope": 0, "type": 5, "relative_target_port_id": i}, i % len(TIDS)]
                                 for i in range(n)], 0]
        for v in bits.alphabet(64):
            yield ["prkeys", 7, [v], 0]
            yield ["prres", 7, {"reservation_key": v, "scope": 0, "type": 5}, 0]
        for sc in range(16):
            for ty in range(16):
                yield ["prres", 1, {"reservation_key": 0xABCDEF, "scope": sc, "type": ty}, 8]
        yield ["prres", 0xFFFFFFFF, None, 0]
        yield ["prres", 3, None, 16]
        for vals in field_points(R.PR_CAPS, max(k, 2)):
            yield ["prcaps", vals, {"wr_ex": 1}, 0]
        for vals in field_points(R.PR_TYPE_MASK, max(k, 2)):
            yield ["prcaps", {"ptpl_c": 1}, vals, 0]
        for vals in field_points(R.FULL_STATUS_DESC, k):
            yield ["prfull", 9, [[vals, 0]], 0]
        for n in range(0, 4):
            for ts in itertools.product(range(len(TIDS)), repeat=n):
                for tail in (0, 24):
                    yield ["prfull", 0x10, [[{"reservation_key": 0x1000 + i, "r_holder": i & 1, "scope": 0, "type": 5, "relative_target_port_id": i + 1}, t]
                                            for i, t in enumerate(ts)], tail]
    elif name == "discinfo":
        fixed = ("disc_information_length", "disc_information_data_type")
        for vals in field_points(R.DISC_STD, k, fixed=fixed):
            yield ["discinfo", 0, vals, 1, 0]
        for v in (0, 1, 0xFF, 0x100, 0x1234, 0xFFFF):
            yield ["discinfo", 0, {"number_of_sessions": v, "first_track_number_in_last_session": v ^ 0x101, "last_track_number_in_last_session": (v + 1) & 0xFFFF}, 0, 6]
        for vals in field_points(R.DISC_TRACK, max(k, 2), fixed=fixed):
            yield ["discinfo", 1, vals, 0, 0]
        for vals in field_points(R.DISC_POW, max(k, 2), fixed=fixed):
            yield ["discinfo", 2, vals, 0, 0]
        yield ["discinfo", 1, {}, 0, 20]
        yield ["discinfo", 2, {}, 0, 20]
    elif name == "readcd":
        for est, mcsb in readcd_layouts():
            for c2 in (0, 1, 2):
                for sc in (0, 2, 4):
                    for tl in (0, 1, 2):
                        for lba in (0, 0x1000):
                            yield ["readcd", est, mcsb, c2, sc, lba, tl, 0 if tl != 1 else 100]


def run_partition(part, tier, seed):
    acc = Acc(seed)
    prev = None
    if part[0] == "aba":
        reps = aba_representatives(part[1])
        if part[2] >= len(reps):
            return acc
        a = reps[part[2]]
        others = [b for b in reps if b is not a]
        case = ["aba", a, others]
        acc.case(case, nontrivial=True, key=repr(case[:2]) + str(len(others)))
        try:
            v = run_aba_star(a, others)
        except Exception:
            import traceback
            v = [("harness_error/aba", traceback.format_exc()[-600:])]
        for kk, w in v:
            acc.violation(kk, w, case)
        acc.outcome((repr(a), tuple(x for x, _ in v)))
        acc.add("aba_pairs", len(others))
        acc.evaluations += len(others)
        return acc
    if part[0] == "vpd_short":
        for value in range(0, 10):
            case = ["designator_table_history", value]
            acc.case(case, nontrivial=True, key=repr(case))
            try:
                v = run_case(case)
            except Exception:
                import traceback
                v = [("harness_error/designator_table_history", traceback.format_exc()[-600:])]
            for kk, w in v:
                acc.violation(kk, w, case)
            acc.outcome((repr(case), tuple(x for x, _ in v)))
        for dtype in range(0x0A, 0x10):
            for pos in range(4):
                case = ["vpd83_types", dtype, pos]
                acc.case(case, nontrivial=True, key=repr(case))
                try:
                    v = run_case(case)
                except Exception:
                    import traceback
                    v = [("harness_error/vpd83_types", traceback.format_exc()[-600:])]
                for kk, w in v:
                    acc.violation(kk, w, case)
                acc.outcome((repr(case), tuple(x for x, _ in v)))
        for page, (fields, size) in sorted(R.VPD_FIXED.items()):
            for plen in range(0, size - 4 + 1):
                for tail in (0xA5, 0xFF):
                    case = ["vpd_short", page, plen, tail]
                    acc.case(case, nontrivial=True, key=repr(case))
                    try:
                        v = run_case(case)
                    except Exception:
                        import traceback
                        v = [("harness_error/vpd_short", traceback.format_exc()[-600:])]
                    for kk, w in v:
                        acc.violation(kk, w, case)
                    acc.outcome((repr(case), tuple(x for x, _ in v)))
        return acc
    for case in gen(part, tier):
        obs = []
        try:
            v = run_case(case, obs)
        except Exception:
            import traceback
            v = [("harness_error/%s" % case[0], traceback.format_exc()[-600:])]
        # the previously decoded result must still hold what its device sent (no state shared between decodes)
        if prev is not None and not prev[3]:
            again = []
            compare(prev[1], prev[2], "", again, prev[0])
            for kk, w in again:
                v.append(("%s/earlier_result_changed" % prev[0], "after decoding another response, an earlier result changed: " + w))
        prev = (obs[1] + (bool(v),)) if len(obs) > 1 else None
        acc.case(case, nontrivial=True, key=obs[0] if obs else repr(case))
        for kk, w in v:
            acc.violation(kk, w, case)
        acc.outcome((obs[0] if obs else None, tuple(x for x, _ in v)))
    return acc
