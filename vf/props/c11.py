"""C11 - decoding device data always terminates, whatever the bytes."""
import os
import signal
import sys

from vf.props import c04
from vf.runner import Acc

ID = "C11"
LEVEL = "exploration"
TECHNIQUE = "exhaustive enumeration of single-byte (all 256 values) and double-byte corruptions, truncations and constant buffers of every length for every decoder, each call executed under a sys.settrace line budget proportional to the buffer size"
RULE = ("decoders: 12 unmarshall_datain (INQUIRY standard and every VPD page, MODE SENSE 6/10, READ CAPACITY 10/16, GET LBA STATUS, REPORT LUNS, "
        "RTPG, REPORT PRIORITY, READ ELEMENT STATUS, READ DISC INFORMATION, READ CD with keyword arguments), 4 PERSISTENT RESERVE IN decoders, "
        "TransportID decoder, designator decoder, SCSICheckCondition. Base buffers: well-formed multi-descriptor responses from the C04 encoders "
        "(<= 200 bytes) and all-00 / all-FF / 00..FF-ramp buffers of every length 0..64. Deviations: every byte position x all 256 values "
        "(first 48 bytes; {00,01,7F,80,FF} beyond); every pair of positions among the first 12 bytes (thorough: 24) x {00,01,7F,80,FF}^2; every "
        "truncation length. buffers of 65560 and 70001 bytes (00 / FF, long well-formed lists for GET LBA STATUS, REPORT LUNS, READ KEYS, VPD pages of FFFCh bytes) with header corruptions. Budget: 2000 + 1000 x len(buffer) (300 per byte beyond 4 KiB) traced source lines inside /repo/pyscsi; exceeding it is the violation. "
        "READ ELEMENT STATUS answers whose descriptors refer to one another (all 625 source assignments among four elements x 2 element types). Facade level: 6 methods x 10 endless device behaviours (UNIT ATTENTION alternating / never twice the same, BUSY, NOT READY, TASK SET FULL, RESERVATION CONFLICT, ACA ACTIVE, CHECK CONDITION without sense, deferred errors, GOOD with ever-changing garbage) x both transports: each call ends within 16 submissions and 400 000 lines. Retention: every decoder x ~30 answers (well-formed, constant, bad lengths, truncated) decoded 40 times each with the results and errors dropped: none of the input buffers may stay alive. Growth: every decoder x 3 well-formed answers x 400 never-repeating variants (counter in the last and a middle word), results dropped: memory allocated after answers 101..400 below 16 KiB. Non-trivial = buffer differs from the well-formed base; distinct = distinct (decoder, buffer).")
ASSUMPTIONS = [
    "work is measured in executed Python source lines inside the library (sys.settrace); the budget 2000 + 1000 lines per buffer byte is about 5x the worst terminating cost measured (READ ELEMENT STATUS with a hostile descriptor length of 1: ~200 lines per byte); evidence key max_lines_within_budget reports the measured maxima per decoder",
    "returning or raising any ordinary exception within the budget is acceptable; memory is not measured separately (the decoders only slice the buffer they are given)",
]
VALS5 = (0x00, 0x01, 0x7F, 0x80, 0xFF)


class BudgetExceeded(BaseException):
    pass


class CpuExceeded(BudgetExceeded):
    pass


def budget_for(nbytes):
    """traced source lines allowed for one decode: 2000 + 1000 per byte up to 4 KiB, 300 per byte beyond (the worst terminating
    decoder measured needs ~200 per byte)"""
    return 2000 + 1000 * min(nbytes, 4096) + 300 * max(0, nbytes - 4096)


def cpu_limit(nbytes):
    """seconds of user CPU time for ONE decode: 1 s + 2 ms per byte (the whole line budget, traced, costs about 1 us per line = 1 ms per byte)"""
    return 1.0 + 0.002 * nbytes


def _on_cpu(signum, frame):
    raise CpuExceeded()


def bounds(tier):
    return {"pair_span": 12 if tier == "quick" else 24}


_PRE = [None]


def guarded(fn, budget, nbytes=0):
    """run fn under a line budget; returns (exceeded?, lines used)"""
    pre = _PRE[0] or (os.path.join(os.environ.get("VF_REPO", "/repo"), "pyscsi") + "/")
    _PRE[0] = pre
    n = [0]

    def local(frame, event, arg):
        if event == "line":
            n[0] += 1
            if n[0] > budget:
                raise BudgetExceeded()
        return local

    def glob(frame, event, arg):
        if event == "call" and frame.f_code.co_filename.startswith(pre):
            return local
        return None
    # work done below the Python line level (regular expressions, C loops that poll for signals) is bounded by user CPU time
    old = signal.signal(signal.SIGVTALRM, _on_cpu)
    signal.setitimer(signal.ITIMER_VIRTUAL, cpu_limit(nbytes))
    sys.settrace(glob)
    try:
        fn()
        return False, n[0]
    except CpuExceeded:
        return "cpu", n[0]
    except BudgetExceeded:
        return True, n[0]
    except Exception:      # noqa: BLE001 - raising is a legitimate answer to garbage
        return False, n[0]
    finally:
        sys.settrace(None)
        signal.setitimer(signal.ITIMER_VIRTUAL, 0)
        signal.signal(signal.SIGVTALRM, old)


def cpu_guarded(fn, nbytes):
    """run fn under the CPU-time limit only (no line counting); returns True when the limit was hit"""
    old = signal.signal(signal.SIGVTALRM, _on_cpu)
    signal.setitimer(signal.ITIMER_VIRTUAL, cpu_limit(nbytes))
    try:
        fn()
        return False
    except CpuExceeded:
        return True
    except Exception:      # noqa: BLE001
        return False
    finally:
        signal.setitimer(signal.ITIMER_VIRTUAL, 0)
        signal.signal(signal.SIGVTALRM, old)


_CLS = {}


def _L(name):
    if name not in _CLS:
        _CLS[name] = c04.lib(name)
    return _CLS[name]


def decoders():
    """name -> callable(buffer); classes are resolved (imported) before any tracing starts"""
    for n in ("Inquiry", "ModeSense6", "ModeSense10", "ReadCapacity10", "ReadCapacity16", "GetLBAStatus", "ReportLuns", "ReportTargetPortGroups",
              "ReportPriority", "ReadElementStatus", "ReadDiscInformation", "ReadCd", "PRKeys", "PRRes" "ervation", "PRCaps", "PRFull"):
        _L(n)
    import pyscsi.pyscsi.scsi_sense  # noqa: F401
    L = _L
    d = {
        "inquiry_std": lambda b: L("Inquiry").unmarshall_datain(b, evpd=0),
        "inquiry_vpd": lambda b: L("Inquiry").unmarshall_datain(b, evpd=1),
        "mode6": lambda b: L("ModeSense6").unmarshall_datain(b),
        "mode10": lambda b: L("ModeSense10").unmarshall_datain(b),
        "readcap10": lambda b: L("ReadCapacity10").unmarshall_datain(b),
        "readcap16": lambda b: L("ReadCapacity16").unmarshall_datain(b),
        "getlbastatus": lambda b: L("GetLBAStatus").unmarshall_datain(b),
        "reportluns": lambda b: L("ReportLuns").unmarshall_datain(b),
        "rtpg": lambda b: L("ReportTargetPortGroups").unmarshall_datain(b),
        "reportpriority": lambda b: L("ReportPriority").unmarshall_datain(b),
        "res": lambda b: L("ReadElementStatus").unmarshall_datain(b),
        "discinfo": lambda b: L("ReadDiscInformation").unmarshall_datain(b),
        "prkeys": lambda b: L("PRKeys").unmarshall_datain(b),
        "prres": lambda b: L("PRReservation").unmarshall_datain(b),
        "prcaps": lambda b: L("PRCaps").unmarshall_datain(b),
        "prfull": lambda b: L("PRFull").unmarshall_datain(b),
        "transportid": lambda b: L("PRFull").unmarshall_transport_id(b),
        "sense": lambda b: _sense(b),
    }
    for t in range(10):
        d["designator%d" % t] = (lambda tt: lambda b: L("Inquiry").unmarshall_designator(tt, b))(t)
    for est in (1, 2, 4):
        for tl in (1, 2):
            d["readcd/e%dt%d" % (est, tl)] = (lambda e, t: lambda b: L("ReadCd").unmarshall_datain(b, lba=0, tl=t, est=e, mcsb=0x1F if e != 1 else 2,
                                                                                                      c2ei=1, scsb=2))(est, tl)
    return d


def _sense(b):
    from pyscsi.pyscsi.scsi_sense import SCSICheckCondition
    e = SCSICheckCondition(b)
    str(e)


BASES_FROM_C04 = {
    "inquiry_std": ["inquiry_std"], "inquiry_vpd": ["vpd_lists", "vpd83", "vpd86", "vpdb0", "vpdb2", "vpd89"], "mode6": ["mode6"], "mode10": ["mode10"],
    "readcap10": ["readcap"], "readcap16": ["readcap"], "getlbastatus": ["getlbastatus"], "reportluns": ["reportluns"], "rtpg": ["rtpg"],
    "reportpriority": ["reportpriority"], "res": ["res"], "discinfo": ["discinfo"], "prkeys": ["prin"], "prres": ["prin"], "prcaps": ["prin"],
    "prfull": ["prin"],
}
C04_TAG = {"readcap10": "readcap10", "readcap16": "readcap16", "prkeys": "prkeys", "prres": "prres", "prcaps": "prcaps", "prfull": "prfull"}


def base_buffers(name):
    """well-formed bases (from the C04 encoders) + constant buffers"""
    out = []
    seen = set()
    for part in BASES_FROM_C04.get(name, []):
        cands = []
        for case in c04.gen([part], "quick"):
            if name in C04_TAG and case[0] != C04_TAG[name]:
                continue
            try:
                _, data, _, _ = c04.build(case)
            except Exception:
                continue
            if len(data) <= 200:
                cands.append(data)
        # the longest few distinct ones (multi-descriptor) and the shortest one
        cands = sorted(set(cands), key=lambda d: (-len(d), d))
        for dta in cands[:3] + cands[-1:]:
            if dta not in seen:
                seen.add(dta)
                out.append(("wellformed", dta))
    # text-bearing fields: long runs of printable characters (then every single-byte corruption of them, which includes a NUL,
    # a blank and a non-ASCII byte at every position): decoders that match or strip text must stay proportional
    TXT = bytes(0x21 + (i * 7) % 0x5E for i in range(60))
    PAD = b"  " + TXT[:54] + b"    "
    if name == "inquiry_vpd":
        for t in (TXT, PAD, TXT[:28] + bytes(4), b"A" * 60):
            out.append(("wellformed", bytes([0x00, 0x80, 0, len(t)]) + t))
        for dtype, cs in ((1, 2), (8, 3), (0, 2)):
            for t in (TXT, PAD):
                out.append(("wellformed", bytes([0x00, 0x83, 0, len(t) + 4, cs, dtype, 0, len(t)]) + t))
        out.append(("wellformed", bytes([0x00, 0x85, 0, 68, 0x22, 0, 0, 64]) + TXT + b"\0" * 4))
    if name in ("designator1", "designator8", "designator0"):
        out += [("wellformed", TXT), ("wellformed", PAD), ("wellformed", TXT[:32] + bytes(4))]
    if name == "inquiry_std":
        out.append(("wellformed", bytes([0, 0, 6, 2, 91, 0, 0, 2]) + TXT + PAD[:28]))
    if name.startswith("readcd"):
        out.append(("wellformed", bytes(range(256)) * 12))
    if name == "sense":
        from vf.sim.target import desc_sense, fixed_sense
        out += [("wellformed", fixed_sense(5, 0x24, 0)), ("wellformed", desc_sense(6, 0x29, 0) + bytes([0x00, 0x0A]) + bytes(10))]
    if name in ("transportid", "prfull"):
        # iSCSI TransportIDs (format 01b) whose text carries the ",i,0x" separator more than once, at the start, at the end, doubled:
        # whatever the decoder makes of them (a value or a refusal), it makes it in proportional work
        def tid_text(text, fmt=1):
            body = text.encode() + b"\0"
            body += b"\0" * (-len(body) % 4)
            return bytes([(fmt << 6) | 5, 0, len(body) >> 8, len(body) & 0xFF]) + body
        texts = ["iqn.2001-04.com.example:host,i,0x0001,i,0x00023d000001", ",i,0x,i,0x,i,0x", "iqn.x,i,0x1,i,0x2,i,0x3,i,0x4,i,0x5", ",i,0x" * 12,
                 "a,i,0xb,i,0x", ",i,0xabc", "iqn.x,i,0x"]
        for t in texts:
            tid = tid_text(t)
            if name == "transportid":
                out.append(("wellformed", tid))
            else:
                desc = bytearray(24)
                desc[12] = 0x01
                desc[13] = 0x05
                desc[20:24] = len(tid).to_bytes(4, "big")
                full = bytes(4) + (24 + len(tid)).to_bytes(4, "big") + bytes(desc) + tid
                out.append(("wellformed", full))
    if name == "transportid":
        from vf.spec import responses as R
        out += [("wellformed", R.transport_id(t)) for t in c04.TIDS]
    # buffers beyond 64 KiB (allocation lengths are 16/32-bit fields): constant content, and a long well-formed list where the format has one
    for n in (65560, 70001):
        out.append(("big", bytes(n)))
        out.append(("big", b"\xff" * n))
    if name == "res":
        # descriptors that refer to one another (SOURCE STORAGE ELEMENT ADDRESS with SVALID): every assignment of sources among four
        # data transfer elements (each names one of the four, itself included, or an element that is not in the answer) - chains, self
        # references and cycles a decoder that follows the references must survive
        import itertools
        from vf.spec import responses as R
        addrs = [0x100, 0x101, 0x102, 0x103]
        for srcs in itertools.product(addrs + [0x400], repeat=4):
            for etype in (4, 3):
                descs = [{"element_address": a, "full": 1, "access": 1, "svalid": 1, "source_storage_element_address": s_} for a, s_ in zip(addrs, srcs)]
                out.append(("linked", R.read_element_status(0x100, 4, [(etype, 0, 0, descs)])))
    if name == "getlbastatus":
        from vf.spec import responses as R
        out.append(("big", R.get_lba_status([{"lba": 16 * i, "num_blocks": 16, "p_status": i % 3} for i in range(4200)])))
    if name == "reportluns":
        from vf.spec import responses as R
        out.append(("big", R.report_luns([i << 48 for i in range(8300)])))
    if name == "prkeys":
        from vf.spec import responses as R
        out.append(("big", R.pr_read_keys(7, list(range(8300)))))
    if name == "inquiry_vpd":
        out.append(("big", bytes([0, 0x80, 0xFF, 0xFC]) + b"S" * 0xFFFC))
        out.append(("big", bytes([0, 0x00, 0xFF, 0xFC]) + bytes(i & 0xFF for i in range(0xFFFC))))
    for n in range(0, 65):
        out.append(("const00", bytes(n)))
        out.append(("constFF", b"\xff" * n))
        out.append(("ramp", bytes(range(n))))
    return out


NCHUNKS = {"inquiry_vpd": 6, "res": 3, "rtpg": 3, "inquiry_std": 3, "prfull": 3, "discinfo": 2, "reportpriority": 2, "mode6": 2, "mode10": 2}


class _Buf(bytearray):
    """a bytearray that can be weakly referenced"""


def run_retention(name, hexbuf):
    """'nor allocate without bound': the same answer decoded 40 times, every result / error dropped at once - afterwards none of the
    40 input buffers may still be alive (kept by a cache, by an error object that is re-used, by a growing traceback ...)"""
    import gc
    import weakref
    fn = decoders()[name]
    buf = bytes.fromhex(hexbuf)
    refs = []
    for _ in range(40):
        b = _Buf(buf)
        refs.append(weakref.ref(b))
        if cpu_guarded(lambda: fn(b), len(buf)):
            return [("%s/cpu_time_exceeded" % name.split("/")[0], "%s: decoding %d bytes (%s%s) was still running after %.1f s of CPU time: does not terminate in proportional work"
                     % (name, len(buf), buf[:40].hex(), "..." if len(buf) > 40 else "", cpu_limit(len(buf))))]
        del b
    gc.collect()
    alive = sum(1 for r in refs if r() is not None)
    if alive > 1:
        return [("%s/buffers_retained" % name.split("/")[0], "%s: after 40 decodes of %s%s (results and errors dropped) %d of the 40 input buffers are still alive: "
                 "memory grows with every answer" % (name, buf[:24].hex(), "..." if len(buf) > 24 else "", alive))]
    return []


GROWTH_WARMUP, GROWTH_N, GROWTH_LIMIT = 100, 300, 16384


def growth_variant(buf, i):
    """answer #i of a device that never answers the same twice: a counter in the last four bytes (and, for longer answers, in an
    aligned word in the middle)"""
    b = bytearray(buf)
    c = (0x01020304 + i * 0x00010203) & 0xFFFFFFFF
    w = c.to_bytes(4, "big")
    if len(b) >= 4:
        b[-4:] = w
    if len(b) >= 32:
        m = (len(b) // 2) & ~3
        b[m:m + 4] = bytes(x ^ 0x5A for x in w)
    return b


def run_growth(name, hexbuf):
    """'nor allocate without bound' over a history: 400 answers that never repeat, every result / error dropped at once; the memory
    still allocated after answers 101..400 (tracemalloc, after a collection) stays below 16 KiB - it must not grow with the number
    of answers decoded (a memo without eviction, a table that absorbs values, ...)"""
    import gc
    import tracemalloc
    fn = decoders()[name]
    buf = bytes.fromhex(hexbuf)

    class Hung(Exception):
        pass

    def run(lo, hi):
        for i in range(lo, hi):
            v_ = growth_variant(buf, i)
            if cpu_guarded(lambda: fn(v_), len(buf)):
                raise Hung(bytes(v_))
    try:
        run(0, GROWTH_WARMUP)
    except Hung as h:
        b_ = h.args[0]
        return [("%s/cpu_time_exceeded" % name.split("/")[0], "%s: decoding %d bytes (%s%s) was still running after %.1f s of CPU time: does not terminate in proportional work"
                 % (name, len(b_), b_[:40].hex(), "..." if len(b_) > 40 else "", cpu_limit(len(b_))))]
    gc.collect()
    was = tracemalloc.is_tracing()
    if not was:
        tracemalloc.start()
    try:
        s0 = tracemalloc.get_traced_memory()[0]
        try:
            run(GROWTH_WARMUP, GROWTH_WARMUP + GROWTH_N)
        except Hung:
            return [("%s/cpu_time_exceeded" % name.split("/")[0], "%s: a variant of %s did not decode within the CPU limit" % (name, buf[:24].hex()))]
        gc.collect()
        s1 = tracemalloc.get_traced_memory()[0]
    finally:
        if not was:
            tracemalloc.stop()
    if s1 - s0 > GROWTH_LIMIT:
        return [("%s/memory_grows" % name.split("/")[0], "%s: after decoding %d further answers that never repeat (variants of %s%s, results and errors dropped) %d bytes "
                 "more are allocated than before: memory grows with the number of answers" % (name, GROWTH_N, buf[:24].hex(), "..." if len(buf) > 24 else "", s1 - s0))]
    return []


HOSTILE = ["ua_alternating", "ua_counting", "busy", "not_ready", "task_set_full", "reservation_conflict", "garbage_good", "cc_nosense", "deferred", "aca"]
DEV_METHODS = ["testunitready", "inquiry", "readcapacity10", "read10", "modesense6", "reportluns"]
MAX_SUBMISSIONS = 16


def run_device(tr, behaviour, method):
    """a hostile device that never stops answering the same way (or never the same way twice): every facade call - and the attach -
    ends (returns or raises) within MAX_SUBMISSIONS commands and the line budget"""
    from vf import harness
    from vf.sim import install
    from vf.sim.target import desc_sense, fixed_sense
    install.ensure()
    count = [0]
    hostile = [False]

    class TooMany(BaseException):
        pass

    rig = harness.Rig(tr, 0x00)
    orig = rig.target.command

    def command(cdb, dataout, datain, transport):
        if not hostile[0]:
            return orig(cdb, dataout, datain, transport)
        count[0] += 1
        n = count[0]
        if n > MAX_SUBMISSIONS:
            raise TooMany()
        if behaviour == "ua_alternating":
            return 0x02, (fixed_sense(6, 0x29, 0x00) if n % 2 else fixed_sense(6, 0x2A, 0x01))
        if behaviour == "ua_counting":
            return 0x02, (fixed_sense(6, 0x29, n & 0x7F) if n % 2 else desc_sense(6, 0x2A, n & 0x7F))
        if behaviour == "busy":
            return 0x08, None
        if behaviour == "not_ready":
            return 0x02, fixed_sense(2, 0x04, 0x01)
        if behaviour == "task_set_full":
            return 0x28, None
        if behaviour == "reservation_conflict":
            return 0x18, None
        if behaviour == "cc_nosense":
            return 0x02, None
        if behaviour == "deferred":
            return 0x02, bytes([0x71, 0, 1, 0, 0, 0, 0, 10, 0, 0, 0, 0, 0x0C, n & 0xFF, 0, 0, 0, 0])
        if behaviour == "aca":
            return 0x30, None
        if datain is not None and len(datain):
            datain[:] = bytes((0xFF - i - n) & 0xFF for i in range(len(datain)))
        return 0x00, None
    rig.target.command = command
    out = []
    try:
        s = rig.facade(512)
        hostile[0] = True

        def call():
            from vf import facade as F
            F.call(s, method)
        over, lines = guarded(call, 400000)
        if over or count[0] > MAX_SUBMISSIONS:
            out.append(("device/%s/%s" % (behaviour, "too_many_submissions" if count[0] > MAX_SUBMISSIONS else "budget_exceeded"),
                        "%s over %s against a device that answers '%s' for ever: still re-submitting after %d commands (%d source lines)"
                        % (method, tr, behaviour, count[0], lines)))
    except TooMany:
        out.append(("device/%s/too_many_submissions" % behaviour, "%s over %s against a device that answers '%s' for ever: more than %d commands submitted for one call"
                    % (method, tr, behaviour, MAX_SUBMISSIONS)))
    finally:
        hostile[0] = False
        rig.close()
    return out


def partitions(tier):
    parts = []
    for n in decoders():
        k = NCHUNKS.get(n, 2 if n.startswith("readcd") else 1)
        parts += [[n, c, k] for c in range(k)]
    parts += [["device", tr, 0] for tr in ("sgio", "iscsi")]
    parts += [["retention", 0, 0]]
    return parts


def run_case(case, obs=None):
    if case[0] == "device":
        return run_device(*case[1:])
    if case[0] == "retention":
        return run_retention(case[1], case[2])
    if case[0] == "growth":
        return run_growth(case[1], case[2])
    name, hexbuf = case
    buf = bytes.fromhex(hexbuf)
    fn = decoders()[name]
    budget = budget_for(len(buf))
    over, lines = guarded(lambda: fn(bytearray(buf)), budget, len(buf))
    if obs is not None:
        obs.append(lines)
    if over == "cpu":
        return [("%s/cpu_time_exceeded" % name.split("/")[0], "%s: decoding %d bytes (%s%s) was still running after %.1f s of CPU time (%d source lines): does not terminate in proportional work"
                 % (name, len(buf), buf[:40].hex(), "..." if len(buf) > 40 else "", cpu_limit(len(buf)), lines))]
    if over:
        return [("%s/budget_exceeded" % name.split("/")[0], "%s: decoding %d bytes (%s%s) used more than %d source lines (budget 2000+1000/byte): does not terminate in proportional work"
                 % (name, len(buf), buf[:32].hex(), "..." if len(buf) > 32 else "", budget))]
    return []


def replay(case):
    return run_case(case)


def run_partition(part, tier, seed):
    acc = Acc(seed)
    if part[0] == "retention":
        for name in decoders():
            bases = base_buffers(name)
            chosen = [b for k, b in bases if k == "wellformed"][:3] + [bytes(24), b"\xff" * 24, bytes(range(24)), bytes([0, 0, 0, 0, 0, 0, 0, 5]) + bytes(16),
                                                                      bytes([0, 0, 0, 0, 0, 9]) + bytes(18), bytes(8), b"\xff" * 8]
            for b_ in chosen:
                for variant in (b_, b_[:len(b_) // 2], b_[:5] + b"\x7f" + b_[6:]):
                    case = ["retention", name, bytes(variant).hex()]
                    acc.evaluations += 1
                    acc.nontrivial.add(hash(tuple(case)))
                    try:
                        v = run_case(case)
                    except Exception:
                        import traceback
                        v = [("harness_error", traceback.format_exc()[-600:])]
                    for k, w in v:
                        acc.violation(k, w, case)
                    acc.outcomes.add(hash((name, len(variant), tuple(k for k, _ in v))))
            for b_ in [b for k, b in bases if k == "wellformed"][:3]:
                case = ["growth", name, bytes(b_).hex()]
                acc.evaluations += 1
                acc.nontrivial.add(hash(tuple(case)))
                try:
                    v = run_case(case)
                except Exception:
                    import traceback
                    v = [("harness_error", traceback.format_exc()[-600:])]
                for k, w in v:
                    acc.violation(k, w, case)
                acc.outcomes.add(hash((name, "growth", len(b_), tuple(k for k, _ in v))))
        acc.samples.append((0, ["retention", "(see rule)"]))
        return acc
    if part[0] == "device":
        for behaviour in HOSTILE:
            for method in DEV_METHODS:
                case = ["device", part[1], behaviour, method]
                acc.evaluations += 1
                acc.nontrivial.add(hash(tuple(case)))
                try:
                    v = run_case(case)
                except Exception:
                    import traceback
                    v = [("harness_error", traceback.format_exc()[-600:])]
                for k, w in v:
                    acc.violation(k, w, case)
                acc.outcomes.add(hash((tuple(case), tuple(k for k, _ in v))))
        acc.samples.append((0, ["device", part[1], "(see rule)"]))
        return acc
    name, chunk, nchunks = part
    fn = decoders()[name]
    span = bounds(tier)["pair_span"]
    maxlines = 0
    ncpu = [0]

    def do(buf, nontrivial):
        nonlocal maxlines
        budget = budget_for(len(buf))
        over, lines = guarded(lambda: fn(bytearray(buf)), budget, len(buf))
        maxlines = max(maxlines, lines if not over else 0)
        acc.evaluations += 1
        h = hash((name, buf))
        if nontrivial:
            acc.nontrivial.add(h)
        acc.outcomes.add(lines // 50)
        if over == "cpu":
            ncpu[0] += 1
            acc.violation("%s/cpu_time_exceeded" % name.split("/")[0],
                          "%s: decoding %d bytes (%s%s) was still running after %.1f s of CPU time: does not terminate in proportional work"
                          % (name, len(buf), buf[:40].hex(), "..." if len(buf) > 40 else "", cpu_limit(len(buf))), [name, buf.hex()])
            if ncpu[0] >= 3:
                raise StopIteration
        elif over:
            ncpu[0] += 0.34
            acc.violation("%s/budget_exceeded" % name.split("/")[0],
                          "%s: decoding %d bytes (%s%s) used more than %d source lines: does not terminate in proportional work"
                          % (name, len(buf), buf[:32].hex(), "..." if len(buf) > 32 else "", budget), [name, buf.hex()])
            if ncpu[0] >= 3:
                raise StopIteration
        if len(acc.samples) < 4 and nontrivial and (h & 0x3FF) == (seed & 0x3FF):
            acc.samples.append((h & 0xFFFFFFFF, [name, buf[:64].hex(), "lines=%d" % lines]))

    try:
        _explore(name, chunk, nchunks, span, do)
    except StopIteration:
        acc.caps.append("%s: stopped after 3 decodes that exceeded the CPU limit / 9 that exceeded the line budget (each is reported)" % name)
    acc.extra["max_lines_within_budget"] = ["%s:%d" % (name, maxlines)]
    if not acc.samples:
        acc.samples.append((0, [name, "(see rule)"]))
    return acc


def _explore(name, chunk, nchunks, span, do):
    for bi, (kind, base) in enumerate(base_buffers(name)):
        if bi % nchunks != chunk:
            continue
        do(base, kind != "wellformed")
        if kind == "linked":
            continue
        if kind == "big":
            # (single-byte corruptions of the header only: the first 8 bytes x {00,01,FF})
            if len(base) != 70001:
                for i in range(8):
                    for v in (0x00, 0x01, 0xFF):
                        if base[i] != v:
                            do(base[:i] + bytes([v]) + base[i + 1:], True)
            continue
        if kind != "wellformed":
            # constant buffers of every length: all 256 values on the first 8 positions (lengths 4,8,12,16,24,32,64), the 5-value alphabet otherwise / on the next 16
            for i in range(min(24, len(base))):
                for v in (range(256) if i < 8 and kind == "const00" and len(base) in (4, 8, 12, 16, 24, 32, 64) else VALS5):
                    if base[i] != v:
                        do(base[:i] + bytes([v]) + base[i + 1:], True)
            continue
        n = len(base)
        for i in range(n):
            vals = range(256) if i < 48 else VALS5
            for v in vals:
                if base[i] != v:
                    do(base[:i] + bytes([v]) + base[i + 1:], True)
        if kind == "wellformed":
            for i in range(min(span, n)):
                for j in range(i + 1, min(span, n)):
                    for a in VALS5:
                        for b in VALS5:
                            m = bytearray(base)
                            m[i], m[j] = a, b
                            do(bytes(m), True)
            for t in range(n):
                do(base[:t], True)
