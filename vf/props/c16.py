"""C16 - attaching to a device selects the command set of its peripheral device type."""
import itertools

from vf import harness
from vf.runner import Acc
from vf.sim import install
from vf.spec import bits
from vf.spec import opcodes as T

ID = "C16"
OPT_QUICK_ALL = True      # every partition also in a child interpreter started with -O
LEVEL = "model_checking"
TECHNIQUE = "explicit enumeration of all attach / re-attach histories (bounded length) over simulated targets of every peripheral device type and qualifier on both transports, judged by a device-type -> command-set reference table and a differential comparison with a fresh facade"
RULE = ("depth 1: all 32 peripheral device types x 8 qualifiers x {SG_IO, iSCSI} x {SCSI(dev), facade(dev) re-attach}; all 32 types x attach made from an except block / a finally block during propagation / a generator resumed by throw() (first attach and re-attach); all 32 types x iSCSI logical unit numbers 255 / 256 / 300 / 16383 / 16384 (the INQUIRY goes to the unit the URL names); all 32 types x caller-made device objects (ordinary, a list of seen commands - empty when new -, __bool__ False, __len__ 0) attached by constructor / call / call after another device; all 32 types x facade subclasses with their own constructor (one that only stores the device, one with another signature) attached and re-attached by call; all 32 types x ADDITIONAL LENGTH {00,1F,5A,5B,5C,9F,FF} (first attach and re-attach); all 32 types x every single bit of INQUIRY bytes 1-7 and 56 set (the selection may depend on the device type only); histories: all sequences of "
        "length <= 3 over device types {00,01,03,04,05,07,08,0E,1F} (9^1+9^2+9^3 per transport, mixing transports at the second step), "
        "first step by construction, later steps by calling the same facade; every history of length 2-3 also with one earlier attach refused by its device (CHECK CONDITION / BUSY to the INQUIRY): it fails and the following attaches are judged as usual. all 32 types x 5 previous sets on a device object that logs every assignment to .opcodes (the set changes in one step, no transient other set). states = distinct (facade device, per-device command set) "
        "configurations; transitions = attach events. Non-trivial = history has a re-attach or a type other than 00.")
ASSUMPTIONS = [
    "reference table (SPC-4 table 'peripheral device type' + which command standard governs it): 00/04/07 -> SBC, 01 -> SSC, 05 -> MMC, 08 -> SMC; processor (03) and every other code: only the primary commands are required (INQUIRY, TEST UNIT READY, REPORT LUNS with their T10 values)",
    "the selected set is identified by value: every identifier of the expected set resolves to the expected OpCode object of pyscsi.pyscsi.scsi_enum_command",
]
EXPECT = {0x00: "sbc", 0x04: "sbc", 0x07: "sbc", 0x01: "ssc", 0x05: "mmc", 0x08: "smc"}
ALPHA = [0x00, 0x01, 0x03, 0x04, 0x05, 0x07, 0x08, 0x0E, 0x1F]


def bounds(tier):
    return {"history_len": 3}


def partitions(tier):
    parts = [["depth1", tr] for tr in ("sgio", "iscsi")] + [["transient"], ["duck"]]
    for tr in ("sgio", "iscsi"):
        for t in ALPHA:
            parts.append(["hist", tr, t])
    return parts


def check_device(dev, dtype, tgt, where, n_before):
    """after an attach: exactly one standard INQUIRY reached the target; the set matches"""
    out = []
    new = tgt.log[n_before:]
    inq = [r for r in new if r["cdb"][0] == 0x12]
    if len(new) != 1 or len(inq) != 1 or bits.extract(inq[0]["cdb"], 1, 0, 1) != 0 or inq[0]["cdb"][2] != 0:
        out.append(("attach_commands", "%s: target saw %r, expected exactly one standard INQUIRY" % (where, [r["cdb"].hex() for r in new])))
    ops = dev.opcodes
    want = EXPECT.get(dtype)
    if want is not None:
        ref = harness.opcode_set(want)
        if ops is not ref:
            # accept an equal copy: every identifier with the same value
            same = set(ops.keys) == set(ref.keys) and all(getattr(ops, k).value == getattr(ref, k).value for k in ref.keys)
            if not same:
                out.append(("wrong_set/%02x" % dtype, "%s: device type %#04x got a set with keys like %r, expected %s"
                            % (where, dtype, sorted(ops.keys)[:4], want)))
    for k in ("INQUIRY", "TEST_UNIT_READY", "REPORT_LUNS"):
        if k not in ops.keys or getattr(ops, k).value != T.SPC[k]:
            out.append(("primary_missing", "%s: selected set lacks %s with its T10 value" % (where, k)))
    if getattr(dev, "devicetype", None) != dtype:
        out.append(("devicetype", "%s: device.devicetype=%r, target reports %#04x" % (where, getattr(dev, "devicetype", None), dtype)))
    return out


def set_id(dev):
    for n in ("spc", "sbc", "ssc", "smc", "mmc"):
        if dev.opcodes is harness.opcode_set(n):
            return n
    return "other"


def attach_in(ctx, fn):
    """perform the attach fn() in the caller's situation ctx: 0 plainly; 1 inside an except block (a fallback after something else
    failed); 2 inside a finally block while an unrelated exception is propagating; 3 inside a generator resumed by throw()"""
    if ctx == 0:
        return fn()
    if ctx == 1:
        try:
            raise KeyError("first choice of device not configured")
        except KeyError:
            return fn()
    if ctx == 2:
        box = []
        try:
            try:
                raise TimeoutError("something unrelated")
            finally:
                box.append(fn())
        except TimeoutError:
            pass
        return box[0]
    if ctx == 3:
        def gen():
            try:
                yield 0
            except OSError:
                yield fn()
        g = gen()
        next(g)
        return g.throw(OSError("unrelated"))
    raise ValueError(ctx)


def _attach_deferred(cls, dev):
    s = cls(None)
    s(dev)
    return s


def facade_class(kind):
    """0: the library's SCSI; 1: a subclass whose constructor only stores the device (attached later with s(dev)), as the test
    suite's own MockSCSI does; 2: a subclass with another constructor signature (device only, block size fixed)"""
    from pyscsi.pyscsi.scsi import SCSI
    if kind == 1:
        class DeferredSCSI(SCSI):
            def __init__(self, dev, blocksize=0):
                self.device = dev
                self._blocksize = blocksize
        return DeferredSCSI
    if kind == 2:
        class DiskSCSI(SCSI):
            def __init__(self, dev):
                super().__init__(dev, 512)
        return DiskSCSI
    return SCSI


def run_case(case, obs=None):
    install.ensure()
    from pyscsi.pyscsi.scsi import SCSI
    fkind = case[2] if len(case) > 2 else 0
    if fkind:
        SCSI = facade_class(fkind)
        if fkind == 1:
            first = SCSI
            SCSI = lambda dev: _attach_deferred(first, dev)      # noqa: E731 - a deferred facade is created empty and attached by call
    steps = case[1]             # list of (transport, dtype, qualifier)
    out = []
    rigs = []
    refused = []
    s = None
    try:
        for i, step in enumerate(steps):
            tr, dtype, q = step[:3]
            patch = {int(k): v for k, v in (step[3] if len(step) > 3 else {}).items()}
            lun = step[6] if len(step) > 6 else 0
            rig = harness.Rig(tr, dtype, q, inq_patch=patch, **({"lun": lun} if tr == "iscsi" and lun else {}))
            where = "step %d of %r" % (i, steps)
            if len(step) > 4 and step[4]:
                # an attach whose INQUIRY the device refuses (CHECK CONDITION over SG_IO / BUSY over iSCSI): it fails - and must not
                # spoil the attaches that follow
                from vf.sim.target import fixed_sense
                rig.target.script.append((0x02, fixed_sense(2, 0x04, 0x01)) if step[4] == 1 else (0x08, None))
                try:
                    if s is None:
                        SCSI(rig.dev)
                    else:
                        s(rig.dev)
                    out.append(("refused_attach_succeeds", "%s: the device refused INQUIRY, the attach returned normally" % where))
                except Exception:   # noqa: BLE001
                    pass
                refused.append(rig)
                if obs is not None:
                    obs.append(("refused", set_id(s.device) if s is not None and s.device is not None else None))
                continue
            rigs.append(rig)
            n0 = len(rig.target.log)
            prev = [(r.dev, set_id(r.dev), getattr(r.dev, "devicetype", None)) for r in rigs[:-1]]
            ctx = step[5] if len(step) > 5 else 0
            if ctx:
                where += " (attach made %s)" % {1: "inside an except block", 2: "inside a finally block while an unrelated exception propagates",
                                                 3: "inside a generator resumed by throw()"}[ctx]
            if s is None:
                s = attach_in(ctx, lambda: SCSI(rig.dev))
            else:
                attach_in(ctx, lambda: s(rig.dev))
            if s.device is not rig.dev:
                out.append(("facade_device", "%s: facade not bound to the new device" % where))
            out += check_device(rig.dev, dtype, rig.target, where, n0)
            # differential: a fresh facade over an identical fresh device selects the same set
            ref = harness.Rig(tr, dtype, q)         # (default INQUIRY data: the selection must depend on the device type only)
            try:
                SCSI(ref.dev)
                if set_id(ref.dev) != set_id(rig.dev):
                    out.append(("leak", "%s: re-attach selected %s, a fresh facade selects %s" % (where, set_id(rig.dev), set_id(ref.dev))))
            finally:
                ref.close()
            # previous devices untouched
            for (d, sid, dt) in prev:
                if set_id(d) != sid or getattr(d, "devicetype", None) != dt:
                    out.append(("previous_device_changed", "%s: an earlier device changed from %s to %s" % (where, sid, set_id(d))))
            if obs is not None:
                obs.append((tuple(set_id(r.dev) for r in rigs), set_id(s.device)))
    finally:
        for r in rigs + refused:
            r.close()
    return out


class LogDev(object):
    """a device object that notes every assignment to .opcodes (what another thread sharing the device could observe)"""

    def __init__(self, dtype, start):
        self._ops = start
        self.assigned = []
        self.dtype = dtype
        self.devicetype = None

    @property
    def opcodes(self):
        return self._ops

    @opcodes.setter
    def opcodes(self, v):
        self.assigned.append(v)
        self._ops = v

    def execute(self, cmd, en_raw_sense=False):
        if cmd.cdb[0] == 0x12 and len(cmd.datain):
            cmd.datain[0] = self.dtype
            if len(cmd.datain) > 4:
                cmd.datain[4] = 31

    def close(self):
        pass


def duck_device(kind, dtype):
    """device objects of the caller's own making (the facade takes anything with opcodes / execute / close) whose truth value is
    their own business: an ordinary one, one that is a list of the commands it has seen (empty = falsy when new), one whose
    __bool__ says "medium loaded" (False), one whose __len__ counts outstanding commands (0)"""
    import pyscsi.pyscsi.scsi_enum_command as E

    class Plain(object):
        def __init__(self):
            self.opcodes = E.spc
            self.devicetype = None
            self.seen = []

        def execute(self, cmd, en_raw_sense=False):
            self.seen.append(bytes(cmd.cdb))
            if cmd.cdb[0] == 0x12 and len(cmd.datain):
                cmd.datain[0] = dtype
                if len(cmd.datain) > 4:
                    cmd.datain[4] = 31

        def close(self):
            pass

    class Recording(list):
        opcodes = E.spc
        devicetype = None

        @property
        def seen(self):
            return list(self)

        def execute(self, cmd, en_raw_sense=False):
            self.append(bytes(cmd.cdb))
            if cmd.cdb[0] == 0x12 and len(cmd.datain):
                cmd.datain[0] = dtype
                if len(cmd.datain) > 4:
                    cmd.datain[4] = 31

        def close(self):
            pass

    class NoMedium(Plain):
        def __bool__(self):
            return False

    class Idle(Plain):
        def __len__(self):
            return 0
    return {"plain": Plain, "recording_list": Recording, "bool_false": NoMedium, "len_zero": Idle}[kind]()


def run_duck(case):
    """attach (by constructor, by call on an empty facade, by call after another device) to a duck-typed device of every type:
    exactly one standard INQUIRY, the set of the reported type"""
    from pyscsi.pyscsi.scsi import SCSI
    _, kind, dtype, how = case
    dev = duck_device(kind, dtype)
    if how == "ctor":
        SCSI(dev)
    elif how == "call":
        s = SCSI(None)
        s(dev)
    else:
        s = SCSI(duck_device("plain", 0x01))
        s(dev)
    out = []
    where = "attach (%s) to a caller-made device object of kind %s reporting type %#04x" % (how, kind, dtype)
    seen = dev.seen
    if len(seen) != 1 or seen[0][0] != 0x12 or seen[0][1] & 1:
        out.append(("duck/attach_commands", "%s: the device saw %r, expected exactly one standard INQUIRY" % (where, [c.hex() for c in seen])))
    want = EXPECT.get(dtype)
    if want is not None and dev.opcodes is not harness.opcode_set(want):
        out.append(("duck/wrong_set/%02x" % dtype, "%s: the device carries a set with keys like %r, expected %s" % (where, sorted(dev.opcodes.keys)[:3], want)))
    for k in ("INQUIRY", "TEST_UNIT_READY", "REPORT_LUNS"):
        if k not in dev.opcodes.keys:
            out.append(("duck/primary_missing", "%s: selected set lacks %s" % (where, k)))
    if dev.devicetype != dtype and seen:
        out.append(("duck/devicetype", "%s: device.devicetype=%r" % (where, dev.devicetype)))
    return out


def run_transient(case):
    """during an attach the device's command set goes from what it was to what the device type prescribes in ONE step: no other
    set is ever assigned in between (a second user of the same device object must never find a set that lacks its commands)"""
    install.ensure()
    from pyscsi.pyscsi.scsi import SCSI
    _, dtype, start = case
    dev = LogDev(dtype, harness.opcode_set(start))
    s = SCSI(dev)
    out = []
    final = dev.opcodes
    other = [a for a in dev.assigned if a is not final]
    if other or len(dev.assigned) > 1:
        names = []
        for a in dev.assigned:
            names.append(next((n for n in ("spc", "sbc", "ssc", "smc", "mmc") if a is harness.opcode_set(n)), "other"))
        out.append(("transient_set", "attach to device type %#04x (device object previously on %s): .opcodes was assigned %r in turn" % (dtype, start, names)))
    want = EXPECT.get(dtype)
    if want is not None and final is not harness.opcode_set(want):
        out.append(("wrong_set/%02x" % dtype, "device type %#04x ends on another set than %s" % (dtype, want)))
    s2 = SCSI(dev)          # a second facade over the same device: same rule
    if [a for a in dev.assigned if a is not final]:
        out.append(("transient_set", "second attach to the same device object of type %#04x: .opcodes passed through another set" % dtype))
    # the older facade goes away (re-bound name, a short-lived helper): the device stays attached to the live one with its set
    import gc
    del s
    SCSI(dev).inquiry()
    gc.collect()
    if dev.opcodes is not final:
        out.append(("set_lost_when_facade_discarded", "device of type %#04x attached to a live facade: after an older / helper facade of the same device was "
                    "discarded it carries another set than before" % dtype))
    del s2
    return out


def replay(case):
    if case[0] == "duck":
        return run_duck(case)
    return run_transient(case) if case[0] == "transient" else run_case(case)


def run_partition(part, tier, seed):
    install.ensure()
    acc = Acc(seed)

    def do(steps, fkind=0):
        case = ["attach", steps] + ([fkind] if fkind else [])
        acc.case(case, nontrivial=len(steps) > 1 or steps[0][1] != 0, key=repr((steps, fkind)))
        obs = []
        try:
            v = run_case(case, obs)
        except Exception:
            import traceback
            v = [("harness_error", traceback.format_exc()[-600:])]
        for k, w in v:
            acc.violation(k, w, case)
        acc.outcome((tuple(obs), tuple(k for k, _ in v)))
        for o in obs:
            acc.stateset.add(hash(o))
        acc.transitions += len(steps)
        acc.traces += 1

    if part[0] == "duck":
        for kind in ("plain", "recording_list", "bool_false", "len_zero"):
            for dtype in range(32):
                for how in ("ctor", "call", "recall"):
                    case = ["duck", kind, dtype, how]
                    acc.case(case, nontrivial=True, key=repr(case))
                    try:
                        v = run_duck(case)
                    except Exception:
                        import traceback
                        v = [("harness_error", traceback.format_exc()[-600:])]
                    for k, w in v:
                        acc.violation(k, w, case)
                    acc.outcome((repr(case), tuple(k for k, _ in v)))
                    acc.transitions += 1
                    acc.traces += 1
        return acc
    if part[0] == "transient":
        for dtype in range(32):
            for start in ("spc", "sbc", "ssc", "smc", "mmc"):
                case = ["transient", dtype, start]
                acc.case(case, nontrivial=True, key=repr(case))
                try:
                    v = run_transient(case)
                except Exception:
                    import traceback
                    v = [("harness_error", traceback.format_exc()[-600:])]
                for k, w in v:
                    acc.violation(k, w, case)
                acc.outcome((repr(case), tuple(k for k, _ in v)))
                acc.transitions += 2
                acc.traces += 1
        return acc
    if part[0] == "depth1":
        tr = part[1]
        for dtype in range(32):
            for q in range(8):
                do([(tr, dtype, q)])
                do([(tr, 0x00, 0), (tr, dtype, q)])
            # the rest of the standard INQUIRY data must not influence the selection: every single bit of bytes 1-7 and 56 set,
            # all of them set, and vendor/product text changed
            for byte in (1, 2, 3, 5, 6, 7, 56):
                for bit in range(8):
                    do([(tr, dtype, 0, {byte: 1 << bit})])
            do([(tr, dtype, 0, {1: 0xFF, 2: 0xFF, 3: 0xFF, 5: 0xFF, 6: 0xFF, 7: 0xFF, 56: 0xFF})])
            # ... nor does the ADDITIONAL LENGTH the device reports (less, exactly, or more data than the facade asked for)
            for al in (0x00, 0x1F, 0x5A, 0x5B, 0x5C, 0x9F, 0xFF):
                do([(tr, dtype, 0, {4: al})])
                do([(tr, 0x01, 0), (tr, dtype, 0, {4: al})])
            do([(tr, 0x08, 0), (tr, dtype, 0, {6: 0x08, 5: 0x80})])
            # the caller's own situation does not matter: attach made from an except block, a finally block, a generator resumed by throw()
            for ctx in (1, 2, 3):
                do([(tr, dtype, 0, {}, 0, ctx)])
                do([(tr, 0x05, 0), (tr, dtype, 0, {}, 0, ctx)])
            # iSCSI logical units beyond the single-byte range (the URL names the unit; 255 / 256 / 300 / 16383 / 16384)
            if tr == "iscsi":
                for lun in (255, 256, 300, 16383, 16384):
                    do([(tr, dtype, 0, {}, 0, 0, lun)])
                    do([(tr, 0x01, 0), (tr, dtype, 0, {}, 0, 0, lun)])
            # facade subclasses with their own constructors: attach and re-attach by call still probe and select
            for fkind in (1, 2):
                do([(tr, dtype, 0)], fkind)
                do([(tr, 0x01, 0), (tr, dtype, 0)], fkind)
                do([(tr, dtype, 0), (tr, 0x08, 0), (tr, dtype, 0)], fkind)
        return acc
    _, tr, t0 = part
    other = "iscsi" if tr == "sgio" else "sgio"
    L = bounds(tier)["history_len"]
    for n in range(1, L + 1):
        for rest in itertools.product(ALPHA, repeat=n - 1):
            types = [t0] + list(rest)
            do([(tr, t, 0) for t in types])
            if n >= 2:
                do([(tr if i % 2 == 0 else other, t, (i * 3) % 8) for i, t in enumerate(types)])
                # one of the earlier attaches is refused by its device (CHECK CONDITION, BUSY)
                for pos in range(n - 1):
                    for how in (1, 2):
                        do([(tr, t, 0, {}, how if i == pos else 0) for i, t in enumerate(types)])
                    # ... and the next attach is the caller's fallback, made from the except block
                    do([(tr, t, 0, {}, 1 if i == pos else 0, 1 if i == pos + 1 else 0) for i, t in enumerate(types)])
    return acc
