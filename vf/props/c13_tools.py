"""C13 helper: the scripts shipped under tools/ and examples/ run as a user would run them, against simulated devices."""
import contextlib
import io
import os
import runpy
import warnings
import sys

from vf import harness
from vf.sim import install, registry
from vf.spec import bits
from vf.spec import responses as R

# (script, device type, arguments after the device path, is the path given as "-f <path>")
SCRIPTS = [
    ("tools/inquiry.py", 0, [], False), ("tools/getlbastatus.py", 0, [], False), ("tools/mtx.py", 8, ["status"], True),
    ("tools/mtx.py", 8, ["load", "1", "0"], True), ("tools/mtx.py", 8, ["unload", "1", "0"], True),
    ("examples/read16.py", 0, [], False), ("examples/read_cd.py", 5, [], False), ("examples/read_disc_information.py", 5, [], False),
    ("examples/readcapacity10.py", 0, [], False), ("examples/readcapacity16.py", 0, [], False), ("examples/reportluns.py", 0, [], False),
    ("examples/reportpriority.py", 0, [], False),
]
CHANGER = {"first_medium_transport_element_address": 0x0000, "num_medium_transport_elements": 1, "first_storage_element_address": 0x0400,
           "num_storage_elements": 3, "first_import_element_address": 0x0300, "num_import_elements": 1,
           "first_data_transfer_element_address": 0x0100, "num_data_transfer_elements": 2}


def changer_answer(cdb):
    """a small medium changer: 1 arm, 3 slots (first two full, tagged), 1 mail slot, 2 drives (first one loaded)"""
    if cdb[0] == 0x1A and (cdb[2] & 0x3F) == 0x1D:
        return R.mode_data(False, {"medium_type": 0, "device_specific_parameter": 0}, b"", [R.mode_page(0x1D, None, CHANGER)])
    if cdb[0] == 0xB8:
        etype = cdb[1] & 0x0F
        voltag = (cdb[1] >> 4) & 1
        pages = []

        def tag(t):
            return {"primary_volume_tag": t.ljust(36, b" ")} if voltag else {}
        if etype in (0, 1):
            pages.append((1, 0, 0, [{"element_address": 0}]))
        if etype in (0, 2):
            pages.append((2, voltag, 0, [dict({"element_address": 0x400, "full": 1, "access": 1}, **tag(b"VOL001")),
                                         dict({"element_address": 0x401, "full": 1, "access": 1}, **tag(b"VOL002")),
                                         dict({"element_address": 0x402, "access": 1}, **tag(b""))]))
        if etype in (0, 3):
            pages.append((3, voltag, 0, [dict({"element_address": 0x300, "access": 1, "inenab": 1, "exenab": 1}, **tag(b""))]))
        if etype in (0, 4):
            pages.append((4, voltag, 0, [dict({"element_address": 0x100, "full": 1, "access": 1}, **tag(b"VOL009")),
                                         dict({"element_address": 0x101, "access": 1}, **tag(b""))]))
        n = sum(len(p[3]) for p in pages)
        return R.read_element_status(min(p[3][0]["element_address"] for p in pages), n, pages)
    return None


def run_tool(script, dtype, extra, dashf, tr):
    """-> violations: the script ends without an exception, every CDB it caused is of its opcode's length, and what it prints
    agrees with the simulated device"""
    install.ensure()
    rig = harness.Rig(tr, dtype)
    out = []
    tgt = rig.target
    if dtype == 8:
        orig = tgt.command

        def command(cdb, dataout, datain, transport):
            ans = changer_answer(bytes(cdb))
            if ans is not None:
                tgt.log.append({"cdb": bytes(cdb), "transport": transport, "datain_len": len(datain) if datain is not None else None})
                n = min(len(ans), len(datain))
                datain[:n] = ans[:n]
                tgt.log[-1]["transferred"] = n
                return 0x00, None
            return orig(cdb, dataout, datain, transport)
        tgt.command = command
    path = rig.node.path if tr == "sgio" else "iscsi://portal:3260/%s/0" % rig.key[1]
    full = os.path.join(os.environ.get("VF_REPO", "/repo"), script)
    argv0 = sys.argv[:]
    sink = io.StringIO()
    registry.privileged = True
    where = "%s %s over %s" % (script, " ".join(extra), tr)
    try:
        sys.argv = [full] + (["-f", path] if dashf else [path]) + extra
        with contextlib.redirect_stdout(sink), warnings.catch_warnings():
            # (the scripts themselves print bytearrays with str(): under `python -bb` that is the script's business, not the library's;
            # the filter covers frames of the script only)
            warnings.filterwarnings("ignore", category=BytesWarning, module="__main__")
            runpy.run_path(full, run_name="__main__")
    except SystemExit as e:
        if e.code not in (None, 0):
            out.append(("tools/exit/%s" % os.path.basename(script), "%s: exited with status %r: %s" % (where, e.code, sink.getvalue()[-200:])))
    except Exception as e:   # noqa: BLE001
        out.append(("tools/raises/%s" % os.path.basename(script), "%s: raised %s: %s" % (where, type(e).__name__, e)))
    finally:
        sys.argv = argv0
        registry.privileged = False
        rig.close()
    text = sink.getvalue()
    from vf.spec import opcodes as T
    for rec in tgt.log:
        want = T.cdb_length(rec["cdb"][0])
        if want is not None and len(rec["cdb"]) != want:
            out.append(("tools/cdb_length", "%s: a CDB of %d bytes with operation code %#04x reached the device" % (where, len(rec["cdb"]), rec["cdb"][0])))
    if out:
        return out, text
    base = os.path.basename(script)
    expect = []
    if base == "inquiry.py":
        expect = ["Vendor identification: VERIF", "Product identification: SIMULATED TARGET", "Device_type=0", "version=0x06"]
    elif base == "readcapacity10.py":
        expect = ["returned_lba - %d" % min(tgt.nblocks - 1, 0xFFFFFFFF), "block_length - %d" % tgt.blocksize]
    elif base == "readcapacity16.py":
        expect = ["returned_lba - %d" % (tgt.nblocks - 1), "block_length - %d" % tgt.blocksize]
    elif base == "getlbastatus.py":
        expect = ["fully provisioned"]
    elif base == "mtx.py" and extra == ["status"]:
        expect = ["Data Transfer Element: 0:Full", "Data Transfer Element: 1:Empty", "Storage Element: 2:Full", "Storage Element: 3:Full",
                  "Storage Element: 4:Empty", "VOL001", "VOL002", "VOL009"]
    elif base == "mtx.py" and extra[0] in ("load", "unload"):
        mm = [r["cdb"] for r in tgt.log if r["cdb"][0] == 0xA5]
        src, dst = (0x0401 - 0, 0x0100) if extra[0] == "load" else (0x0100, 0x0401)
        if len(mm) != 1:
            out.append(("tools/mtx/move_count", "%s: %d MOVE MEDIUM commands reached the changer" % (where, len(mm))))
        else:
            # (which slot / drive addresses the script derives from its own numbering is the script's business - it computes
            # slot + first_storage - first_drive, which is another element than the one its `status` shows under that number
            # unless the first drive address equals the number of drives; no property speaks about tools/mtx.py, so only the
            # transport element and the shape of the command are judged)
            if bits.extract(mm[0], 2, 7, 16) != 0:
                out.append(("tools/mtx/transport_element", "%s: MOVE MEDIUM names transport element %#x, the changer's arm is 0" % (where, bits.extract(mm[0], 2, 7, 16))))
    for e in expect:
        if e not in text:
            out.append(("tools/output/%s" % base, "%s: the output lacks %r (the device reports it); output: %r" % (where, e, text[:300])))
    return out, text
