"""C01 - every CDB the library builds has the standard's wire format."""
from vf import cmdspace as CS
from vf.runner import Acc
from vf.spec import cdb as S

ID = "C01"
LEVEL = "exploration"
TECHNIQUE = "deviation-bounded exhaustive enumeration of constructor argument tuples per class x opcode table, each CDB compared byte-for-byte with an independent spec encoder"
RULE = ("42 command classes x every opcode-table entry under which a command set offers the command x all argument tuples that "
        "deviate from the baseline (required arguments 0, optional arguments omitted) in at most k dimensions (k=2 quick, 3 thorough); "
        "a dimension is one multi-bit argument ranging over its whole alphabet (all values up to 4 bits, else 0/1/max/max-1/every "
        "2^i/every max-2^i/A5../5A..) or the full product of all 1-bit arguments (each omitted/0/1); tuples with at most one deviation are also passed positionally (in the order of the released signature, frozen in vf/spec/signatures.py) and as int-subclass instances (bool for 0/1) and must give the same CDB; READ CD / READ / WRITE (10,12) also with the negative lead-in LBAs -1, -150, -45150, -2^31 (two's complement or refusal); the first command of every (class, table) partition is shown with print_cdb() / print() / repr() before the rest is built. Non-trivial = at least one "
        "deviation; distinct = distinct (class, table, tuple).")
ASSUMPTIONS = [
    "oracle: vf/spec/cdb.py (Appendix A of DESIGN.md), whole-CDB comparison with the spec encoder: length, opcode, service action, every field, every other bit zero",
    "arguments that size a buffer the constructor allocates (allocation length, READ/WRITE/READ CD transfer length) are capped at 2^22 (quick) / 2^24 (thorough) bytes in the main pass; a second 'wide' pass covers their whole alphabet (up to 2^32-1) with bytearray(n) inside pyscsi.pyscsi.scsi_command shadowed by a length-only stand-in for n > 2^20 (harness-side, process-local; buffers are C03's subject and are judged there without the shim)",
    "parameter-list-length fields are judged against len(cmd.dataout) here (position only); the list itself is C05's subject",
    "each (class, table) partition runs in a freshly forked process in which the first use of the class is a dictionary-level marshall_cdb/unmarshall_cdb with all fields at their maximum, then the constructors; every command is re-examined after the next one was built",
]


MAXTASKS = 1      # every partition runs in a freshly forked worker: the library is imported anew, nothing an earlier partition did survives


def bounds(tier):
    return {"k": 2 if tier == "quick" else 3, "maxbuf": 1 << (22 if tier == "quick" else 24)}


PLATFORM_CHILD = r"""
import sys, json
sys.byteorder = %(byteorder)r          # what CPython reports on such a host (the library may consult it; struct and int are unaffected)
sys.platform = %(platform)r
sys.path.insert(0, %(root)r)
from vf import runner
runner.setup_repo(%(repo)r)
from vf.props import c01
from vf import cmdspace as CS
from vf.spec import cdb as S
out = []
n = 0
for name, c in sorted(S.CLASSES.items()):
    st, key = next(((st, key) for st, key in c["tables"] if CS.get_opcode(st, key) is not None), (None, None))
    if st is None:
        continue
    for point, r in CS.points(name, 1, 1 << 16):
        n += 1
        for k, w in c01.run_case([name, st, key, point]):
            out.append([k, w, [name, st, key, point]])
        if len(out) > 20:
            break
print(json.dumps({"n": n, "viol": out[:20]}))
"""


def run_platform(byteorder, platform):
    """the checks of this property in an interpreter that reports another host (sys.byteorder 'big' as on s390x / ppc64, sys.platform
    of another OS): every class, baseline and every single-argument deviation - the wire format does not depend on the host"""
    import json
    import os
    import subprocess
    import sys
    root = os.path.dirname(os.path.dirname(os.path.dirname(os.path.abspath(__file__))))
    code = PLATFORM_CHILD % {"byteorder": byteorder, "platform": platform, "root": root, "repo": os.environ.get("VF_REPO", "/repo")}
    p = subprocess.run([sys.executable] + (["-OO"] if sys.flags.optimize else []) + ["-c", code], capture_output=True, timeout=1200,
                       env=dict(os.environ, PYTHONPATH=root, PYTHONHASHSEED="0"))
    if p.returncode != 0:
        return [("platform/child_failed", "interpreter reporting byteorder=%s platform=%s: exit %d: %s" % (byteorder, platform, p.returncode, p.stderr.decode()[-400:]))], 0
    res = json.loads(p.stdout.decode().strip().splitlines()[-1])
    return [("platform/%s/%s" % (byteorder, k), "[host reporting sys.byteorder=%r, sys.platform=%r] %s" % (byteorder, platform, w)) for k, w, _ in res["viol"]], res["n"]


REENTRANT_CLASSES = ["TestUnitReady", "Read10", "Read12", "Read16", "Inquiry", "ModeSense6", "ExtendedCopy4"]


def partitions(tier):
    parts = []
    for name, c in S.CLASSES.items():
        for st, key in c["tables"]:
            parts.append([name, st, key])
    # "wide" pass: the buffer-sizing arguments over their *whole* alphabet (see lazy_buffers)
    for name, c in S.CLASSES.items():
        if any(f in S.ALLOCATING for f in c["args"].values()):
            st, key = c["tables"][0]
            parts.append([name, st, key, "wide"])
    parts += [["reentrant", a, 0] for a in REENTRANT_CLASSES]
    parts += [["platform", "big", "linux"], ["platform", "big", "aix"], ["platform", "little", "freebsd13"], ["platform", "little", "darwin"]]
    return parts


class BigBuf(object):
    """stands for a zero-filled buffer too large to allocate; only its length exists"""

    def __init__(self, n):
        self.n = n

    def __len__(self):
        return self.n


class lazy_buffers(object):
    """While active, `bytearray(n)` evaluated inside pyscsi.pyscsi.scsi_command (where every constructor sizes its data
    buffers) yields a length-only object for n above 2^20, so READ(16) with TRANSFER LENGTH 2^31 can be *constructed* and its
    CDB judged without touching 2^40 bytes of memory.  A harness-side shadowing of a module global in this process only; the
    source is not modified, and if a future version sizes buffers elsewhere the pass degrades to a MemoryError reported as
    a machinery error, never as a violation."""

    def __enter__(self):
        import builtins
        import pyscsi.pyscsi.scsi_command as m
        self.m = m

        def shim(*a):
            if len(a) == 1 and isinstance(a[0], int) and a[0] > (1 << 20):
                return BigBuf(a[0])
            return builtins.bytearray(*a)
        m.bytearray = shim
        return self

    def __exit__(self, *exc):
        try:
            del self.m.bytearray
        except AttributeError:
            pass
        return False


def run_case(case, obs=None):
    """case = [class, set, key, point] -> violations"""
    name, st, key, point = case[:4]
    wide = len(case) > 4 and case[4] == "wide"
    c = S.CLASSES[name]
    op = CS.get_opcode(st, key)
    if op is None:
        return []
    cls = CS.get_class(name)
    kw = CS.build_kwargs(name, point, ata_blocksize=512 if name in S.ATA_LBA_BYTES else None, nodata=wide)   # wide pass: CDB only
    try:
        if wide:
            with lazy_buffers():
                cmd = cls(op, **kw)
        else:
            cmd = cls(op, **kw)
    except MemoryError:
        if wide:
            return []          # the shim no longer covers where the library allocates: a limit of the harness, not a finding
        raise
    except Exception as e:
        return [("construct/%s.%s/%s" % (st, key, name), "%s(%s.%s, %r) raised %s: %s" % (name, st, key, point, type(e).__name__, e))]
    cdb = bytes(cmd.cdb)
    if obs is not None:
        obs.append(cdb)
        obs.append(cmd)
    exp = CS.expected_fields(name, point)
    for f in c["computed"]:
        try:
            exp[f] = len(cmd.dataout)
        except TypeError:
            exp[f] = 0
    want = S.encode(name, exp)
    if cdb == want:
        return []
    out = []
    if len(cdb) != len(want):
        out.append(("length/%s" % name, "%s via %s.%s: CDB is %d bytes (%s), the operation code %#04x prescribes %d"
                    % (name, st, key, len(cdb), cdb.hex(), c["op"], len(want))))
        return out
    if cdb[0] != want[0]:
        out.append(("opcode/%s.%s/%s" % (st, key, name), "%s via %s.%s: opcode byte %#04x, T10 %#04x" % (name, st, key, cdb[0], want[0])))
    got = S.decode(name, cdb)
    for f, v in exp.items():
        if got.get(f) != v:
            out.append(("field/%s/%s" % (name, f), "%s(%r): a conformant target reads %s=%#x from %s, caller supplied %#x"
                        % (name, point, f, got.get(f), cdb.hex(), v)))
    stray = int.from_bytes(cdb, "big") & ~S.covered_mask(name)
    if stray:
        out.append(("straybits/%s" % name, "%s(%r): bits outside every defined field are set: cdb=%s mask=%0*x"
                    % (name, point, cdb.hex(), 2 * len(cdb), stray)))
    if not out:
        out.append(("mismatch/%s" % name, "%s(%r): cdb=%s expected %s" % (name, point, cdb.hex(), want.hex())))
    return out


class _I(int):
    """an int subclass (as IntEnum members, numpy-free counters, ... are)"""


def _wrap(v):
    if type(v) is int:
        return bool(v) if v in (0, 1) else _I(v)
    return v


def conventions(name, st, key, point):
    """the same request through other calling conventions must give the same CDB: positional arguments in signature order,
    and integer arguments that are instances of int subclasses (bool for 0/1)"""
    import inspect
    cls = CS.get_class(name)
    op = CS.get_opcode(st, key)
    kw = CS.build_kwargs(name, point, ata_blocksize=512 if name in S.ATA_LBA_BYTES else None)
    try:
        ref = bytes(cls(op, **kw).cdb)
    except Exception:   # noqa: BLE001 - judged by run_case
        return []
    out = []
    # positional order: the RELEASED one (vf/spec/signatures.py, frozen at the pinned commit), not what the library says today
    from vf.spec import signatures as SIG
    import ast
    params = SIG.COMMANDS[name]
    names = [n for n, _ in params]
    variants = [("int-subclass values", [], {k: _wrap(v) for k, v in kw.items()})]
    if kw and all(k in names for k in kw):
        last = max(names.index(k) for k in kw)
        args = []
        for n, d in params[:last + 1]:
            if n in kw:
                args.append(kw[n])
            elif d is not None:
                try:
                    args.append(ast.literal_eval(d))
                except Exception:   # noqa: BLE001
                    args = None
                    break
            else:
                args = None
                break
        if args is not None:
            variants.append(("positional arguments in the released order %r" % (names[:last + 1],), args, {}))
    # the command's own build_cdb() given the decoded fields of its CDB plus a keyword that is no field, in front (ignored as documented)
    try:
        inst = cls(op, **kw)
        fields = cls.unmarshall_cdb(bytearray(ref))
        again = bytes(inst.build_cdb(**dict({"zz_not_a_field": 0}, **fields)))
        if again != ref:
            out.append(("convention/%s" % name, "%s(%r).build_cdb(zz_not_a_field=0, **decoded fields) gives %s, the command's CDB is %s" % (name, point, again.hex(), ref.hex())))
    except Exception as e:   # noqa: BLE001
        out.append(("convention/%s" % name, "%s(%r).build_cdb(zz_not_a_field=0, **decoded fields) raised %s: %s" % (name, point, type(e).__name__, e)))
    # ... and build_cdb() used as a CDB factory for a sibling command of the same length group (VERIFY through a READ object): the
    # operation code the caller names is the one that goes out, as with the class-level marshall_cdb
    try:
        from vf.spec import opcodes as T
        other = next(c for c in range(ref[0] ^ 0x07, 256) if T.cdb_length(c) == len(ref) and c != ref[0])
        f2 = dict(fields, opcode=other)
        a, b = bytes(inst.build_cdb(**f2)), bytes(cls.marshall_cdb(dict(f2)))
        if a != b or a[0] != other:
            out.append(("convention/%s" % name, "%s(%r).build_cdb(opcode=%#04x, ...) gives %s, %s.marshall_cdb of the same fields %s" % (name, point, other, a.hex(), name, b.hex())))
    except StopIteration:
        pass
    except Exception as e:   # noqa: BLE001
        out.append(("convention/%s" % name, "%s(%r).build_cdb with another operation code of the same length group raised %s: %s" % (name, point, type(e).__name__, e)))
    # ... and the class's marshall_cdb given the decoded fields as a row object (keys() / row[name]; iterating it yields the values)
    try:
        from vf.props.c02 import Record
        again = bytes(cls.marshall_cdb(Record(fields)))
        if again != ref:
            out.append(("convention/%s" % name, "%s.marshall_cdb(row object holding the decoded fields of %r) gives %s, the command's CDB is %s" % (name, point, again.hex(), ref.hex())))
    except Exception as e:   # noqa: BLE001
        out.append(("convention/%s" % name, "%s.marshall_cdb(row object holding the decoded fields of %r) raised %s: %s" % (name, point, type(e).__name__, e)))
    for label, a, k in variants:
        try:
            got = bytes(cls(op, *a, **k).cdb)
        except Exception as e:   # noqa: BLE001
            got = "raised %s: %s" % (type(e).__name__, e)
        if got != ref:
            out.append(("convention/%s" % name, "%s(%r) with %s gives %s, with plain keyword arguments %s"
                        % (name, point, label, got.hex() if isinstance(got, bytes) else got, ref.hex())))
    return out


NEG_CLASSES = ("ReadCd", "Read10", "Read12", "Write10", "Write12")
NEG_LBAS = (-1, -150, -45150, -(1 << 31))


def negative_lba(name, st, key, lba):
    """MMC addresses the lead-in / pre-gap with negative logical block addresses (-45150 .. -1), carried as 32-bit two's complement.
    Accepted: that encoding, or an explicit refusal; not accepted: any other bytes sent without complaint"""
    cls = CS.get_class(name)
    op = CS.get_opcode(st, key)
    if op is None:
        return []
    point = dict(CS.baseline(name), lba=lba, tl=1)
    kw = CS.build_kwargs(name, point)
    try:
        cdb = bytes(cls(op, **kw).cdb)
    except Exception:   # noqa: BLE001 - a refusal is fine
        return []
    got = S.decode(name, cdb).get("lba")
    if got != lba & 0xFFFFFFFF:
        return [("negative_lba/%s" % name, "%s(lba=%d): the CDB %s carries LBA %#010x, two's complement is %#010x" % (name, lba, cdb.hex(), got, lba & 0xFFFFFFFF))]
    return []


def replay(case):
    if case[0] == "platform":
        return run_platform(case[1], case[2])[0]
    if case[0] == "reentrant":
        from vf.props import c09
        return c09.run_reentrant(case[1], case[2])[0]
    if case[0] == "neg":
        return negative_lba(*case[1:])
    return run_case(case) + (conventions(*case[:4]) if len(case) == 4 else [])


def run_partition(part, tier, seed):
    acc = Acc(seed)
    if part[0] == "platform":
        case = list(part)
        acc.case(case, nontrivial=True, key=tuple(case))
        v, n = run_platform(part[1], part[2])
        acc.evaluations += n
        acc.add("cases_under_other_reported_host", n)
        for k, what in v:
            acc.violation(k, what, case)
        acc.outcome((tuple(case), n, tuple(k for k, _ in v)))
        return acc
    if part[0] == "reentrant":
        # the CDB a constructor builds is the same when another command is built in the SAME thread between two library lines of the
        # construction (a signal handler / finalizer issuing a command), at every line in turn (enumeration shared with C09)
        from vf.props import c09
        for b2 in REENTRANT_CLASSES:
            case = ["reentrant", part[1], b2]
            acc.case(case, nontrivial=True, key=tuple(case))
            v, npoints = c09.run_reentrant(part[1], b2, acc)
            acc.add("reentrancy_points", npoints)
            for k, what in v:
                acc.violation(k, what, case)
            acc.outcome((tuple(case), npoints, tuple(k for k, _ in v)))
        return acc
    wide = len(part) > 3
    name, st, key = part[:3]
    b = bounds(tier)
    if CS.get_opcode(st, key) is None:
        acc.add("tables_not_offering", 1)
        # still one evaluation so the partition is visible
        return acc
    prev = None
    api_done = False
    if not wide:
        # first use of this class (and of its operation code) in this process is marshall_cdb/unmarshall_cdb on a dictionary, *before*
        # any constructor has run: whatever that leaves behind must not show in the CDBs built afterwards
        from vf.props import c02
        cls = CS.get_class(name)
        d = {f: (1 << w) - 1 for (f, _, _, w) in c02.lib_fields(name)}
        d["opcode"] = S.CLASSES[name]["op"]
        try:
            cls.unmarshall_cdb(cls.marshall_cdb(d))
        except Exception:   # noqa: BLE001 - judged by C02
            pass
    if wide:
        pts = ((p, r) for p, r in CS.points(name, min(b["k"], 2), 1 << 64) if any(
            S.CLASSES[name]["args"].get(a) in S.ALLOCATING and v > b["maxbuf"] // (3072 if name == "ReadCd" else 1) for a, v in p.items()))
    else:
        pts = CS.points(name, b["k"], b["maxbuf"])
    if not wide and name in NEG_CLASSES:
        for lba in NEG_LBAS:
            case = ["neg", name, st, key, lba]
            acc.case(case, nontrivial=True, key=repr(case))
            v = negative_lba(name, st, key, lba)
            for k, what in v:
                acc.violation(k, what, case)
            acc.outcome((name, "neg", lba, tuple(k for k, _ in v)))
    for point, r in pts:
        case = [name, st, key, point] + (["wide"] if wide else [])
        acc.case(case, nontrivial=r > 0, key=(name, st, key, wide, tuple(sorted(point.items()))))
        obs = []
        v = run_case(case, obs)
        if not wide and r <= 1:
            v += conventions(name, st, key, point)
        # the command built just before must still carry its own CDB (no scratch buffer shared between commands)
        if prev is not None and bytes(prev[0].cdb) != prev[1]:
            v.append(("earlier_command_changed/%s" % name, "%s(%r): building it changed the CDB of the %s built before it (%s -> %s)"
                      % (name, point, name, prev[1].hex(), bytes(prev[0].cdb).hex())))
        prev = (obs[1], obs[0]) if len(obs) > 1 else None
        if prev is not None and not wide and not api_done:
            # the display helpers of a command (print_cdb, repr, str, print) are pure observers: used once here, on the first command
            # of the partition - every CDB built afterwards is still compared with the spec encoder
            api_done = True
            import contextlib
            import io
            try:
                with contextlib.redirect_stdout(io.StringIO()):
                    prev[0].print_cdb()
                    print(prev[0])
                    repr(prev[0])
                    str(prev[0].opcode)
            except Exception as e:   # noqa: BLE001
                v.append(("display_helper_raises/%s" % name, "%s: print_cdb()/print()/repr() of a built command raised %s: %s" % (name, type(e).__name__, e)))
            if bytes(prev[0].cdb) != prev[1]:
                v.append(("display_helper_changes_cdb/%s" % name, "%s: print_cdb()/print()/repr() changed the command's CDB" % name))
        for k, what in v:
            acc.violation(k, what, case)
        acc.outcome((name, obs[0] if obs else None, tuple(k for k, _ in v)))
    return acc
