"""C01 - every CDB the library builds has the standard's wire format."""
from vf import cmdspace as CS
from vf.runner import Acc
from vf.spec import cdb as S

ID = "C01"
LEVEL = "exploration"
TECHNIQUE = "deviation-bounded exhaustive enumeration of constructor argument tuples per class x opcode table, each CDB compared byte-for-byte with an independent spec encoder"
RULE = ("42 command classes x every opcode-table entry under which a command set offers the command x all argument tuples that "
        "deviate from the baseline (required arguments 0, optional arguments omitted) in at most k dimensions (k=2 quick, 3 thorough); "
        "a dimension is one multi-bit argument ranging over its whole alphabet (all values up to 4 bits, else 0/1/max/max-1/every "
        "2^i/every max-2^i/A5../5A..) or the full product of all 1-bit arguments (each omitted/0/1). Non-trivial = at least one "
        "deviation; distinct = distinct (class, table, tuple).")
ASSUMPTIONS = [
    "oracle: vf/spec/cdb.py (Appendix A of DESIGN.md), whole-CDB comparison with the spec encoder: length, opcode, service action, every field, every other bit zero",
    "arguments that size a buffer the constructor allocates (allocation length, READ/WRITE transfer length) are capped at 2^22 (quick) / 2^24 (thorough) bytes; the high bits of those fields are exercised through marshall_cdb in C02",
    "parameter-list-length fields are judged against len(cmd.dataout) here (position only); the list itself is C05's subject",
]


def bounds(tier):
    return {"k": 2 if tier == "quick" else 3, "maxbuf": 1 << (22 if tier == "quick" else 24)}


def partitions(tier):
    parts = []
    for name, c in S.CLASSES.items():
        for st, key in c["tables"]:
            parts.append([name, st, key])
    return parts


def run_case(case, obs=None):
    """case = [class, set, key, point] -> violations"""
    name, st, key, point = case
    c = S.CLASSES[name]
    op = CS.get_opcode(st, key)
    if op is None:
        return []
    cls = CS.get_class(name)
    kw = CS.build_kwargs(name, point, ata_blocksize=512 if name in S.ATA_LBA_BYTES else None)
    try:
        cmd = cls(op, **kw)
    except Exception as e:
        return [("construct/%s.%s/%s" % (st, key, name), "%s(%s.%s, %r) raised %s: %s" % (name, st, key, point, type(e).__name__, e))]
    cdb = bytes(cmd.cdb)
    if obs is not None:
        obs.append(cdb)
    exp = CS.expected_fields(name, point)
    for f in c["computed"]:
        try:
            exp[f] = len(cmd.dataout)
        except TypeError:
            exp[f] = 0
    want = S.encode(name, exp)
    if cdb == want:
        return []
    out = []
    if len(cdb) != len(want):
        out.append(("length/%s" % name, "%s via %s.%s: CDB is %d bytes (%s), the operation code %#04x prescribes %d"
                    % (name, st, key, len(cdb), cdb.hex(), c["op"], len(want))))
        return out
    if cdb[0] != want[0]:
        out.append(("opcode/%s.%s/%s" % (st, key, name), "%s via %s.%s: opcode byte %#04x, T10 %#04x" % (name, st, key, cdb[0], want[0])))
    got = S.decode(name, cdb)
    for f, v in exp.items():
        if got.get(f) != v:
            out.append(("field/%s/%s" % (name, f), "%s(%r): a conformant target reads %s=%#x from %s, caller supplied %#x"
                        % (name, point, f, got.get(f), cdb.hex(), v)))
    stray = int.from_bytes(cdb, "big") & ~S.covered_mask(name)
    if stray:
        out.append(("straybits/%s" % name, "%s(%r): bits outside every defined field are set: cdb=%s mask=%0*x"
                    % (name, point, cdb.hex(), 2 * len(cdb), stray)))
    if not out:
        out.append(("mismatch/%s" % name, "%s(%r): cdb=%s expected %s" % (name, point, cdb.hex(), want.hex())))
    return out


def replay(case):
    return run_case(case)


def run_partition(part, tier, seed):
    acc = Acc(seed)
    name, st, key = part
    b = bounds(tier)
    if CS.get_opcode(st, key) is None:
        acc.add("tables_not_offering", 1)
        # still one evaluation so the partition is visible
        return acc
    for point, r in CS.points(name, b["k"], b["maxbuf"]):
        case = [name, st, key, point]
        acc.case(case, nontrivial=r > 0, key=(name, st, key, tuple(sorted(point.items()))))
        obs = []
        v = run_case(case, obs)
        for k, what in v:
            acc.violation(k, what, case)
        acc.outcome((name, tuple(obs), tuple(k for k, _ in v)))
    return acc
