"""C19 - the transport bindings are optional; a missing one is refused, not half-used."""
import json
import os
import subprocess
import sys

from vf.runner import Acc

ID = "C19"
OPT_QUICK_ALL = True      # every partition also in a child interpreter started with -O
LEVEL = "exploration"
TECHNIQUE = "complete enumeration of the 4 binding-presence combinations (one fresh interpreter each) x every module import x every command class x every device-string/mode/initiator call of the three factories, file opens observed by a sys.addaudithook recorder and connections by the stand-in Context"
RULE = ("9 combinations of {not installed, present, installed but unloadable (import raises a plain ImportError)} for (sgio, iscsi) x 4 orders of the factory calls (plus 2 orders in a process that has imported nothing but the package: factories first, unhandled strings first) (and, for the 4 classic combinations, 6 unusual host names: 64 characters, empty label, non-ASCII, empty, format characters, long FQDN) (as listed, reversed, explicit-names-first, interleaved), each in its own subprocess: import of every module under pyscsi; construction + CDB encode/decode "
        "of each of the 42 command classes; the facade over a plain recording object; init_device / SCSIDevice / ISCSIDevice x 25 device strings "
        "(existing node, directories, absent node, seven well-formed iSCSI URLs incl. user%password@ credentials, IPv6 portal and mixed case, near-miss prefixes in both families, empty, relative, upper-case) x "
        "read-only/read-write x explicit/default initiator name. Non-trivial = at least one binding missing or a device string that is not the "
        "plain existing node; distinct = distinct (combination, kind, case).")
ASSUMPTIONS = [
    "file opens are observed through CPython's 'open' audit event (raised by open, io.open and os.open alike); opens of paths inside the repository, the interpreter prefix and /verif (imports) are ignored",
    "a binding is 'missing' when importing its module raises ImportError (sys.modules entry None)",
    "with the SG_IO binding present, a /dev/ path that cannot be opened may raise OSError, but nothing other than exactly that path may be opened",
]
SERIAL = False


def partitions(tier):
    # 0 = not installed, 1 = present, 2 = installed but unloadable (import raises a plain ImportError: shared library missing)
    parts = [[s, i, o] for s in (0, 1, 2) for i in (0, 1, 2) for o in range(4)]
    # host names other than the machine's own (64 characters, empty label, non-ASCII, empty, format characters, long FQDN)
    parts += [[s, i, 0, h] for s in (0, 1) for i in (0, 1) for h in range(1, 7)]
    # orders 4 / 5: a process that has imported only the package goes straight to the factories (unhandled strings first / as listed)
    parts += [[s, i, o] for s in (0, 1, 2) for i in (0, 1, 2) for o in (4, 5)]
    return parts


def run_child(sg, isc, order=0, host=0):
    env = dict(os.environ)
    env["PYTHONHASHSEED"] = "0"
    root = os.path.dirname(os.path.dirname(os.path.dirname(os.path.abspath(__file__))))
    env["PYTHONPATH"] = root
    p = subprocess.run([sys.executable] + (["-" + "O" * sys.flags.optimize] if sys.flags.optimize else []) + (["-" + "b" * sys.flags.bytes_warning] if sys.flags.bytes_warning else []) + ["-m", "vf.props.c19_child", os.environ.get("VF_REPO", "/repo"), str(sg), str(isc), str(order), str(host)],
                       capture_output=True, text=True, env=env, cwd=root, timeout=600)
    if p.returncode != 0:
        # the library could not even be driven in this configuration
        return [["import", "child", [("child_crashed", "sgio=%s iscsi=%s: %s" % (sg, isc, p.stderr[-600:]))]]]
    return json.loads(p.stdout)


def replay(case):
    sg, isc, order, kind, c = case[:5]
    host = case[5] if len(case) > 5 else 0
    out = []
    for k, cc, v in run_child(sg, isc, order, host):
        if k == kind and cc == c:
            out += [tuple(x) for x in v]
    return out


def run_partition(part, tier, seed):
    acc = Acc(seed)
    sg, isc, order = part[:3]
    host = part[3] if len(part) > 3 else 0
    for kind, c, v in run_child(sg, isc, order, host):
        case = [sg, isc, order, kind, c] + ([host] if host else [])
        trivial = sg == 1 and isc == 1 and (kind != "factory" or (isinstance(c, list) and c[1].endswith("node1")))
        acc.case(case, nontrivial=not trivial, key=repr(case))
        for k, w in v:
            acc.violation(k, w, case)
        acc.outcome((repr(case), tuple(k for k, _ in v)))
    return acc
