"""C09 - command objects are isolated from one another, in any order or interleaving."""
import collections
import copy
import itertools
import os

from vf import cmdspace as CS
from vf import sched
from vf.runner import Acc
from vf.spec import cdb as S

ID = "C09"
LEVEL = "model_checking"
TECHNIQUE = "(a) breadth-first explicit-state search over constructor / encode / decode / discard histories over pairs and triples of command classes with a differential oracle (same operation alone); (b) preemption-bounded exhaustive enumeration of thread schedules at source-line granularity under a sys.settrace + semaphore-baton scheduler owning real threads"
RULE = ("(a) pool of 10 classes chosen to collide (6/10/12/16-byte CDBs, inherited layout, constructors that raise after touching shared state, "
        "mutable arguments); operations new(X, 2 argument variants), new-invalid(X), X.unmarshall_cdb, X.marshall_cdb, repeat-marshal with the same "
        "caller objects, deep copy of a live command (then modified), display helpers (print_cdb / print / repr) of a command, a caller-owned segment dictionary re-used after the caller changed its kind (also after a refused construction), first-use in 13 fresh processes (see C02), decoded result dictionaries kept by the caller (8 methods x a shallow copy decoding another answer / the same command decoding again / a second command): unchanged; data-in buffers kept by the caller after their command was dropped and collected (6 classes x 6 classes x sizes 96 .. 1 MiB): never handed to a later command; 8 pairs of decoders with one preemption at every BYTECODE INSTRUCTION of the command modules (thread switches inside a source line); same-thread re-entrancy: for every ordered pair of pool classes (and decoders) B runs to completion between two library lines of A, at every line of A in turn (signal handler / finalizer semantics), both observing what they observe alone; an opcode scan (a CDB marshalled for each of the 256 operation code values, 4 orders) with the pool classes observed before and after every 32 values; every pool class and decoder 300 (thorough 1100 / 66000) times in a row, each repetition observing what the first did; EXTENDED COPY segment kinds A, B, A in fresh processes (6 kinds x flag keys, both classes: bytes or refusal of A unchanged), the same battery of builds and decodes in 6 interpreters differing only in PYTHONHASHSEED, two commands over one caller-owned buffer with the first discarded and garbage-collected (WRITE, WRITE SAME, EXTENDED COPY inline data, ATA PASS-THROUGH 12/16 x all 256 ATA command codes x both directions), del; BFS with de-duplication on a digest of class-level state + live objects, all pairs to depth 4 (thorough 5) and all "
        "triples to depth 3 (thorough 4); in every state every live object and every class's codec is compared with what the same call yields "
        "alone; decode histories A,B,A over every ordered pair of 20 response kinds in a fresh process (result for A identical before and after B). (b) 2 threads (thorough: also 3), each 'c=X(..); bytes(c.cdb); X.unmarshall_cdb; X.marshall_cdb; len(c.datain)', every ordered "
        "pair of pool classes, plus decoder threads (standard INQUIRY, VPD 83h, MODE SENSE(10), REPORT LUNS, RTPG, READ FULL STATUS, READ ELEMENT STATUS, sense) in all ordered pairs, all schedules with at most 1 preemption at every traced source line of the library (thorough: also all schedules with at most 2 preemptions at function-entry granularity for the pairs over 5 classes of different CDB lengths, and 2 preemptions at "
        "call/line granularity outside converter.py); each schedule's per-thread observation must equal the solo observation; the first "
        "schedule of every pair is replayed twice and must be bit-identical. states = distinct canonical states (a), transitions = operations "
        "applied (a) + schedules executed (b).")
ASSUMPTIONS = [
    "differential oracle: the observation an operation yields inside a history or schedule must equal what the same operation yields when its class is constructed and used immediately (the pattern of the repository's tests); solo CDBs are additionally checked against vf/spec/cdb.py",
    "scheduling points are Python source lines inside /repo/pyscsi (sys.settrace); C-level atomicity of single bytecodes is assumed (GIL)",
    "each history replay starts from a canonical class-level state (one TEST UNIT READY is constructed first)",
]
POOL = ["TestUnitReady", "Read10", "Read12", "Read16", "Inquiry", "ModeSense6", "PersistentReserveInReadKeys", "ExtendedCopy4",
        "ExtendedCopy5", "WriteSame16"]
SEG4 = {"descriptor_type_code": "Copy from block device to block device", "dc": 1, "source_target_descriptor_id": 0,
        "destination_target_descriptor_id": 0, "block_device_number_of_blocks": 4, "source_block_device_logical_block_address": 1,
        "destination_block_device_logical_block_address": 10}
SEG5 = {"descriptor_type_code": "Copy from block device to block device", "dc": 1, "source_cscd_descriptor_id": 0,
        "destination_cscd_descriptor_id": 0, "block_device_number_of_blocks": 4, "source_block_device_logical_block_address": 1,
        "destination_block_device_logical_block_address": 10}
def _cscd(ver, desig_type, desig):
    return {"descriptor_type_code": 0xE4, "peripheral_device_type": 0,
            ("target_descriptor_parameters" if ver == 4 else "cscd_descriptor_parameters"): {
                "code_set": 1, "association": 0, "designator_type": desig_type, "designator_length": 0, "designator": desig},
            "device_type_specific_parameters": {"disk_block_length": 512}}


EUI8 = {"ieee_company_id": 0x589CFC, "vendor_specific_extension_id": b"\x11\x22\x33\x44\x55"}
EUI12 = {"ieee_company_id": 0x589CFC, "vendor_specific_extension_id": b"\x11\x22\x33\x44\x55", "directory_id": b"\xd1\xd2\xd3\xd4"}
NAA2 = {"naa": 2, "vendor_specific_identifier_a": 0xAB, "ieee_company_id": 0x589CFC, "vendor_specific_identifier_b": 0x010203}
NAA6 = {"naa": 6, "ieee_company_id": 0x589CFC, "vendor_specific_identifier": 0xC44, "vendor_specific_identifier_extension": 0xC482D1A5F3D2B2B5}

VARIANTS = {
    "TestUnitReady": [{}, {}],
    "Read10": [dict(blocksize=512, lba=0x01020304, tl=2, fua=1), dict(blocksize=512, lba=7, tl=1, group=0x1F)],
    "Read12": [dict(blocksize=512, lba=0x0A0B0C0D, tl=3, dpo=1), dict(blocksize=1, lba=1, tl=0x10000, rdprotect=7)],
    "Read16": [dict(blocksize=512, lba=0x0102030405060708, tl=2, rarc=1), dict(blocksize=4096, lba=1 << 63, tl=1)],
    "Inquiry": [dict(evpd=1, page_code=0x83, alloclen=255), dict()],
    "ModeSense6": [dict(page_code=0x0A, sub_page_code=1, dbd=1, alloclen=200), dict(page_code=0x3F, pc=3)],
    "PersistentReserveInReadKeys": [dict(alloclen=0x1234), dict()],
    "ExtendedCopy4": [dict(list_identifier=0x34, priority=1, target_descriptor_list="CSCD4a"),
                      dict(segment_descriptor_list="SEG4", inline_data=bytearray(b"abc"), target_descriptor_list="CSCD4b"),
                      dict(list_identifier=0x34, priority=1)],
    "ExtendedCopy5": [dict(list_identifier=0x34, priority=1, immed=1, cscd_descriptor_list="CSCD5a"),
                      dict(segment_descriptor_list="SEG5", cscd_descriptor_list="CSCD5b"),
                      dict(list_identifier=0x34, priority=1, immed=1)],
    "WriteSame16": [dict(blocksize=512, lba=0x1122334455667788, nb=3, data="BLK", unmap=1), dict(blocksize=512, lba=0, nb=1, data="BLK", ndob=1)],
}
INVALID = {
    "Read10": dict(blocksize=512, lba=None, tl=1),
    "Read16": dict(blocksize=512, lba=None, tl=1),
    "Inquiry": dict(alloclen=None),
    "ExtendedCopy4": dict(segment_descriptor_list=[{"descriptor_type_code": 2, "bogus": 1}]),
    "ExtendedCopy5": dict(segment_descriptor_list=[{"descriptor_type_code": 2, "bogus": 1}]),
    "ModeSense6": dict(page_code="x"),
    "WriteSame16": dict(blocksize=512, lba=None, nb=1, data=b""),
}


def bounds(tier):
    q = tier == "quick"
    return {"pair_depth": 4 if q else 5, "triple_depth": 3 if q else 4, "preemptions_line": 1, "preemptions_coarse": 0 if q else 2,
            "threads": 2 if q else 3}


def partitions(tier):
    parts = []
    for a, b in itertools.combinations(POOL, 2):
        parts.append(["hist", [a, b]])
    for t in itertools.combinations(POOL, 3):
        parts.append(["hist", list(t)])
    for a in POOL:
        for b in POOL:
            parts.append(["sched", [a, b]])
    for n in ("ExtendedCopy4", "ExtendedCopy5"):
        parts.append(["sched", [n + "@shared", n + "@shared"]])
    parts += [["daba", n] for n in DECODER_CASES if DECODER_CASES[n] is not None]
    from vf.props import c02
    parts += [["first", i] for i in range(c02.N_FIRST)]
    parts += [["discard"], ["hashseed"]]
    parts += [["segstar", ver, kind, ek] for ver in (4, 5) for kind in SEG_KINDS for ek in ("", "dc", "cat")]
    parts += [["count", n, count_for(n, tier)] for n in POOL + list(DECODER_CASES)]
    parts += [["scan", o] for o in ("up", "down", "groups", "interleaved")]
    parts += [["opsched", list(p_)] for p_ in OPCODE_PAIRS]
    ent = POOL + (list(THREAD_DECODERS) if tier != "quick" else ["dec:inquiry_std", "dec:vpd83", "dec:prfull"])
    parts += [["reentrant", a] for a in ent]
    decs = list(THREAD_DECODERS)
    dq = decs if tier != "quick" else ["dec:inquiry_std", "dec:vpd83", "dec:rtpg", "dec:sense", "dec:prfull"]
    for a in dq:
        for b in dq:
            parts.append(["sched", [a, b]])
        parts.append(["sched", [a, "Inquiry"]])
    if tier != "quick":
        for t in itertools.permutations(["Read10", "Inquiry", "Read16", "TestUnitReady"], 3):
            parts.append(["sched", list(t)])
    return parts


# ---------------------------------------------------------------------------------
def opcode_for(name):
    for st, key in S.CLASSES[name]["tables"]:
        op = CS.get_opcode(st, key)
        if op is not None:
            return op
    raise RuntimeError(name)


def kwargs_for(name, variant):
    kw = dict(VARIANTS[name][variant]) if not isinstance(variant, dict) else dict(variant)
    for k, v in list(kw.items()):
        if not isinstance(v, str):
            continue
        if v == "SEG4":
            kw[k] = [copy.deepcopy(SEG4)]
        elif v == "SEG5":
            kw[k] = [copy.deepcopy(SEG5)]
        elif v == "BLK":
            kw[k] = bytearray(b"\x77" * 512)
        elif isinstance(v, str) and v.startswith("CSCD"):
            ver = int(v[4])
            kw[k] = copy.deepcopy([_cscd(ver, 2, EUI8), _cscd(ver, 3, NAA2)] if v[5] == "a" else [_cscd(ver, 2, EUI12), _cscd(ver, 3, NAA6), _cscd(ver, 2, EUI8)])
    return kw


def observe_obj(c):
    try:
        dl = len(c.dataout)
    except TypeError:
        dl = None
    return (bytes(c.cdb), len(c.datain), dl, bytes(c.dataout) if dl else b"")


_SOLO = {}


def solo(name, variant):
    """what the operation yields alone: construct, use immediately"""
    k = (name, variant)
    if k not in _SOLO:
        cls = CS.get_class(name)
        try:
            c = cls(opcode_for(name), **kwargs_for(name, variant))
            ob = observe_obj(c)
            dec = cls.unmarshall_cdb(bytearray(ob[0]))
            enc = bytes(cls.marshall_cdb(dict(dec)))
            _SOLO[k] = (ob, dec, enc)
        except Exception as e:   # noqa: BLE001 - reported by run_history as a violation, not a machinery error
            _SOLO[k] = ((b"", 0, 0, b""), {"_error": "%s: %s" % (type(e).__name__, e)}, b"")
    return _SOLO[k]


def class_digest(names):
    from pyscsi.pyscsi.scsi_command import SCSICommand
    items = []
    for cls in [SCSICommand] + [CS.get_class(n) for n in names]:
        for k, v in sorted(vars(cls).items()):
            if k.startswith("__") or callable(v) or isinstance(v, (property, classmethod, staticmethod, type)):
                continue
            items.append((cls.__name__, k, type(v).__name__, repr(v)[:200]))
    return hash(tuple(items))


def defaults_digest():
    from pyscsi.pyscsi.scsi import SCSI
    out = []
    for n in ("ExtendedCopy4", "ExtendedCopy5"):
        out.append(repr(CS.get_class(n).__init__.__defaults__))
    out.append(repr(SCSI.extendedcopy4.__defaults__))
    out.append(repr(SCSI.extendedcopy5.__defaults__))
    return tuple(out)


def check_invariants(names, live, where):
    """every live object and every class codec behaves as it does alone"""
    out = []
    for (name, variant, c, born) in live:
        now = observe_obj(c)
        if now != born:
            out.append(("object_changed/%s" % name, "%s: a live %s changed: cdb %s -> %s" % (where, name, born[0].hex(), now[0].hex())))
        want = solo(name, variant)[0]
        if born != want:
            out.append(("object_differs_from_solo/%s" % name, "%s: %s built here has cdb %s (datain %d), alone it has %s (datain %d)"
                        % (where, name, born[0].hex(), born[1], want[0].hex(), want[1])))
    for name in names:
        ob, dec, enc = solo(name, 0)
        cls = CS.get_class(name)
        try:
            d = cls.unmarshall_cdb(bytearray(ob[0]))
        except Exception as e:   # noqa: BLE001
            d = "raised %s" % type(e).__name__
        if d != dec:
            out.append(("decode_depends_on_history/%s" % name, "%s: %s.unmarshall_cdb(%s) -> %r, alone -> %r" % (where, name, ob[0].hex(), d, dec)))
        try:
            m = bytes(cls.marshall_cdb(dict(dec)))
        except Exception as e:   # noqa: BLE001
            m = b"raised " + type(e).__name__.encode()
        if m != enc:
            out.append(("encode_depends_on_history/%s" % name, "%s: %s.marshall_cdb(...) -> %s, alone -> %s" % (where, name, m.hex(), enc.hex())))
    return out


def run_history(names, hist):
    """replay on fresh objects from a canonical class state; returns (violations, canonical state)"""
    out = []
    for n in names:
        for v in (0, 1):
            if "_error" in solo(n, v)[1]:
                out.append(("solo_construct_raises/%s" % n, "%s with valid arguments (variant %d) cannot be built at all: %s" % (n, v, solo(n, v)[1]["_error"])))
    if out:
        return out, ("broken",)
    defaults0 = defaults_digest()
    CS.get_class("TestUnitReady")(opcode_for("TestUnitReady"))      # canonical starting point
    live = []
    shared = {}
    for step, op in enumerate(hist):
        kind, name = op[0], op[1]
        cls = CS.get_class(name)
        where = "step %d of %r" % (step, hist)
        if kind == "new":
            try:
                c = cls(opcode_for(name), **kwargs_for(name, op[2]))
                live.append((name, op[2], c, observe_obj(c)))
                if len(live) > 3:
                    live.pop(0)
            except Exception as e:   # noqa: BLE001
                out.append(("construct_raises/%s" % name, "%s: raised %s: %s" % (where, type(e).__name__, e)))
        elif kind == "bad":
            try:
                cls(opcode_for(name), **copy.deepcopy(INVALID[name]))
            except Exception:   # noqa: BLE001
                pass
        elif kind == "dec":
            try:
                cls.unmarshall_cdb(bytearray(solo(name, 0)[0][0]))
            except Exception:   # noqa: BLE001
                pass
        elif kind == "enc":
            try:
                cls.marshall_cdb(dict(solo(name, 0)[1]))
            except Exception:   # noqa: BLE001
                pass
        elif kind == "rep":
            # the same caller objects marshalled twice must give equal bytes
            kw = shared.setdefault(name, kwargs_for(name, 1))
            try:
                a = observe_obj(cls(opcode_for(name), **kw))
                b = observe_obj(cls(opcode_for(name), **kw))
                if a != b:
                    out.append(("repeat_differs/%s" % name, "%s: marshalling the same inputs twice gave %s then %s" % (where, a[0].hex(), b[0].hex())))
                if a != solo(name, 1)[0]:
                    out.append(("repeat_differs_from_solo/%s" % name, "%s: %s vs alone %s / dataout %s vs %s"
                                % (where, a[0].hex(), solo(name, 1)[0][0].hex(), a[3].hex()[:40], solo(name, 1)[0][3].hex()[:40])))
            except Exception as e:   # noqa: BLE001
                out.append(("repeat_raises/%s" % name, "%s: raised %s: %s" % (where, type(e).__name__, e)))
        elif kind == "xre":
            # one caller-owned segment dictionary used for a command (or a refused construction), then turned by the caller into a
            # descriptor of the other size family and used again: the second command must equal one built from a dictionary no
            # command has seen (whatever the library wrote into the caller's dictionary must not be read back)
            ver = 4 if name.endswith("4") else 5
            src, dst = ("source_target_descriptor_id", "destination_target_descriptor_id") if ver == 4 else ("source_cscd_descriptor_id", "destination_cscd_descriptor_id")
            first, second = ((0x0B, 0x02), (0x02, 0x0B), (0x0B, 0x02))[op[2]]
            seg = {"descriptor_type_code": first, src: 1, dst: 2, "block_device_number_of_blocks": 9}
            if op[2] == 2:
                seg["bogus_key"] = 1
            try:
                cls(opcode_for(name), segment_descriptor_list=[seg])
            except Exception:   # noqa: BLE001
                pass
            seg.pop("bogus_key", None)
            seg["descriptor_type_code"] = second
            user = {"descriptor_type_code": second, src: 1, dst: 2, "block_device_number_of_blocks": 9}
            try:
                a = observe_obj(cls(opcode_for(name), segment_descriptor_list=[seg]))
                b = observe_obj(cls(opcode_for(name), segment_descriptor_list=[user]))
                if a != b:
                    out.append(("reused_argument/%s" % name, "%s: a segment dictionary used before (kind %#04x) and changed by the caller to kind %#04x builds %s, a fresh dictionary with the same entries %s"
                                % (where, first, second, a[3].hex()[:80], b[3].hex()[:80])))
            except Exception as e:   # noqa: BLE001
                out.append(("reused_argument_raises/%s" % name, "%s: raised %s: %s" % (where, type(e).__name__, e)))
        elif kind == "api":
            # display helpers are observers: print_cdb(), print(), repr() of a live command (or of a fresh one) change nothing anywhere
            import contextlib
            import io
            target = next((c for (n_, v_, c, born) in live if n_ == name), None)
            try:
                if target is None:
                    target = cls(opcode_for(name), **kwargs_for(name, 0))
                with contextlib.redirect_stdout(io.StringIO()):
                    target.print_cdb()
                    print(target)
                    repr(target)
            except Exception as e:   # noqa: BLE001
                out.append(("display_helper_raises/%s" % name, "%s: raised %s: %s" % (where, type(e).__name__, e)))
        elif kind == "cpy":
            # a deep copy of a live command is a command of its own: equal now, and changing it leaves the original (and every class) alone
            for (n_, v_, c, born) in list(live):
                if n_ != name:
                    continue
                try:
                    d = copy.deepcopy(c)
                    if observe_obj(d) != born:
                        out.append(("copy_differs/%s" % name, "%s: the deep copy of a %s has cdb %s, the original %s" % (where, name, bytes(d.cdb).hex(), born[0].hex())))
                    d.cdb[0] ^= 0xFF
                    if len(d.datain):
                        d.datain[0] ^= 0xFF
                    if isinstance(d.dataout, bytearray) and len(d.dataout):
                        d.dataout[0] ^= 0xFF
                    d.result["x"] = 1
                except Exception as e:   # noqa: BLE001
                    out.append(("copy_raises/%s" % name, "%s: deepcopy raised %s: %s" % (where, type(e).__name__, e)))
                break
        elif kind == "del":
            if live:
                live.pop(0)
        out += check_invariants(names, live, where)
    if defaults_digest() != defaults0:
        out.append(("defaults_mutated", "after %r: a default argument object changed: %r" % (hist, defaults_digest())))
    state = (class_digest(names), tuple((n, v) for (n, v, _, _) in live))
    return out, state


def ops_for(names):
    ops = []
    for n in names:
        ops.append(("new", n, 0))
        ops.append(("new", n, 1))
        if n in INVALID:
            ops.append(("bad", n))
        ops.append(("dec", n))
        ops.append(("enc", n))
        if n in ("ExtendedCopy4", "ExtendedCopy5", "WriteSame16"):
            ops.append(("rep", n))
        if n in ("ExtendedCopy4", "ExtendedCopy5"):
            ops += [("xre", n, 0), ("xre", n, 1), ("xre", n, 2)]
        if n in ("Read10", "Inquiry", "ExtendedCopy4", "WriteSame16", "PersistentReserveInReadKeys"):
            ops.append(("cpy", n))
        if n in ("Read16", "ModeSense6", "ExtendedCopy5"):
            ops.append(("api", n))
    ops.append(("del", names[0]))
    return ops


# ---------------------------------------------------------------------------------
def thread_body(name, variant, kw=None):
    if name.startswith("dec:"):
        return decoder_body(name)
    name = name.split("@")[0]
    cls = CS.get_class(name)
    op = opcode_for(name)
    if kw is None:
        kw = kwargs_for(name, thread_variant(name))

    with_list = kw is not None and "given" in kw.get("_marker", "given") and name.startswith("ExtendedCopy") and kw.get("segment_descriptor_list") is not None
    kw = {k: v for k, v in kw.items() if k != "_marker"}

    def body():
        c = cls(op, **kw)
        b = bytes(c.cdb)
        d = cls.unmarshall_cdb(c.cdb)
        m = bytes(cls.marshall_cdb(d))
        if with_list:
            return (b, tuple(sorted(d.items())), m, len(c.datain), bytes(c.dataout))
        return (b, tuple(sorted(d.items())), m, len(c.datain))
    return body


DECODER_CASES = {
    # name -> C04 case (a well-formed multi-descriptor response of that format)
    "dec:inquiry_std": ["inquiry_std", {"peripheral_device_type": 5, "version": 6, "tpgs": 3, "cmdque": 1}, 1, 0],
    "dec:vpd83": ["vpd83", [8, 9, 12], 0],
    "dec:mode10": ["mode10", 0x0A, None, {"tst": 2, "d_sense": 1, "busy_timeout_period": 0x1234}, {"medium_type": 3, "device_specific_parameter": 0x10}, 1, 0, 0],
    "dec:reportluns": ["reportluns", [0, 0x0001000000000000, 0xC101000000000000], 0],
    "dec:rtpg": ["rtpg", [[{"asymmetric_access_state": 1, "target_port_group": 7}, [1, 2]], [{"asymmetric_access_state": 2, "target_port_group": 9}, [3]]], 1, 9, 0],
    "dec:prfull": ["prfull", 5, [[{"reservation_key": 3, "r_holder": 1, "scope": 0, "type": 5, "relative_target_port_id": 1}, 3],
                                 [{"reservation_key": 4, "r_holder": 0, "scope": 0, "type": 5, "relative_target_port_id": 2}, 0]], 0],
    "dec:res": ["res", 0x10, 2, [[2, 1, 0, [{"element_address": 0x10, "full": 1, "access": 1, "primary_volume_tag": "hex:" + (b"VOL001").ljust(36, b" ").hex()},
                                            {"element_address": 0x11, "primary_volume_tag": "hex:" + (b"VOL002").ljust(36, b" ").hex()}]]], 0],
    "dec:sense": None,
    "dec:res_mt": ["res", 1, 1, [[1, 0, 0, [{"element_address": 1, "full": 1}]]], 0],
    "dec:res_ie": ["res", 0x20, 1, [[3, 0, 0, [{"element_address": 0x20, "oir": 1, "cmc": 1, "inenab": 1, "exenab": 1, "access": 1, "impexp": 1}]]], 0],
    "dec:res_dt": ["res", 0x30, 1, [[4, 0, 1, [{"element_address": 0x30, "access": 1, "alternate_volume_tag": "hex:" + (b"ALT001").ljust(36, b" ").hex()}]]], 0],
    "dec:discinfo0": ["discinfo", 0, {"disc_status": 2, "number_of_sessions": 0x102, "disc_type": 0x20}, 1, 0],
    "dec:discinfo1": ["discinfo", 1, {"number_of_the_assigned_tracks": 3}, 0, 0],
    "dec:discinfo2": ["discinfo", 2, {"remaining_pow_replacements": 9}, 0, 0],
    "dec:vpdb0": ["vpd_fixed", 0xB0, {"max_xfer_len": 0x10000, "max_ws_len": 1 << 33, "ugavalid": 1}, 0, 0, 0],
    "dec:vpd86": ["vpd_fixed", 0x86, {"spt": 3, "maximum_supported_sense_data_length": 0xFC}, 0, 0, 0],
    "dec:mode6": ["mode6", 0x1D, None, {"first_storage_element_address": 0x400, "num_storage_elements": 24}, {"medium_type": 0, "device_specific_parameter": 0}, 0, 0, 0],
    "dec:prkeys": ["prkeys", 3, [1, 2, 3], 0],
    "dec:prcaps": ["prcaps", {"ptpl_c": 1, "tmv": 1, "allow_commands": 2}, {"wr_ex": 1, "ex_ac_ar": 1}, 0],
    "dec:getlbastatus": ["getlbastatus", [{"lba": 5, "num_blocks": 8, "p_status": 1}], 0],
    "dec:readcd": ["readcd", 4, 0x1F, 1, 2, 0x100, 2, 0],
    "dec:readcd_m1": ["readcd", 2, 0x1E, 0, 0, 0x100, 2, 0],         # Mode 1, all headers selected (mapped: no sub-header)
    "dec:readcd_m2": ["readcd", 3, 0x0C, 0, 2, 0x200, 1, 0],         # Mode 2 formless, all headers only
    "dec:readcd_m1s": ["readcd", 2, 0x08, 2, 0, 0, 1, 0],            # Mode 1, sub-header only (nothing of the main channel)
    "dec:reportluns6": ["reportluns", [0, 1 << 48, 2 << 48, 3 << 48, 4 << 48, 5 << 48], 0],
    "dec:reportluns1": ["reportluns", [7 << 48], 0],
    "dec:reportluns12": ["reportluns", [i << 48 for i in range(12)], 0],
}
THREAD_DECODERS = ["dec:inquiry_std", "dec:vpd83", "dec:mode10", "dec:reportluns", "dec:rtpg", "dec:prfull", "dec:res", "dec:sense"]


def freeze(x):
    if isinstance(x, dict):
        return tuple(sorted((str(k), freeze(v)) for k, v in x.items()))
    if isinstance(x, (list, tuple)):
        return tuple(freeze(v) for v in x)
    if isinstance(x, (bytes, bytearray)):
        return bytes(x)
    return x


def decoder_body(name):
    """thread body: decode a canonical response (and rebuild it where the library can) - observation must equal the solo one"""
    from vf.props import c04
    if name == "dec:sense":
        from pyscsi.pyscsi.scsi_sense import SCSICheckCondition
        from vf.sim.target import fixed_sense
        buf = fixed_sense(6, 0x29, 0x01)

        def body():
            e = SCSICheckCondition(bytearray(buf))
            return (str(e), freeze(e.data), e.asc, e.ascq)
        return body
    fmt, data, exp, dec = c04.build(DECODER_CASES[name])

    def body():
        return freeze(dec(bytearray(data)))
    return body


_DSOLO = {}


def thread_variant(name):
    return 2 if name.startswith("ExtendedCopy") else 0


def solo_thread(name, variant):
    name = name.split("@")[0]
    if name.startswith("dec:"):
        if name not in _DSOLO:
            _DSOLO[name] = decoder_body(name)()
        return _DSOLO[name]
    ob, dec, enc = solo(name, thread_variant(name))
    return (ob[0], tuple(sorted(dec.items())), enc, ob[1])


def coarse(filename, lineno, event):
    return not filename.endswith("converter.py")


def calls_only(filename, lineno, event):
    """scheduling points at function entries inside the library only"""
    return event == "call"


def sched_bodies(names):
    """thread bodies for one schedule.  "X@shared": the threads build their commands from ONE set of caller objects (the same
    descriptor dictionaries and lists - a job template handed to two workers); everything else gets its own fresh arguments"""
    shared = {}
    bodies = []
    for n in names:
        if n.endswith("@shared"):
            base = n.split("@")[0]
            if base not in shared:
                shared[base] = kwargs_for(base, 1)          # (the variant with descriptor lists; their parameter lists are observed)
            bodies.append(thread_body(n, 0, shared[base]))
        else:
            bodies.append(thread_body(n, 0))
    return bodies


def sched_want(names):
    return [solo_thread(n, 0) if not n.endswith("@shared") else thread_body(n, 0, kwargs_for(n.split("@")[0], 1))() for n in names]


def run_schedules(names, bound, gran, acc, tag, max_schedules=None):
    repo = os.environ.get("VF_REPO", "/repo")
    pre = os.path.join(repo, "pyscsi") + "/"
    want = sched_want(names)
    first = []

    def make():
        return sched_bodies(names)
    if getattr(gran, "opcodes", False):
        # (CPython installs the per-instruction instrumentation when it is first asked for; the first traced run sees no events)
        sched.Execution(make(), [], pre, gran).run()

    def on_exec(x):
        case = ["sched", names, list(x.choices), tag]
        npre = sum(1 for (r, _, _), c in zip(x.points, x.choices) if r is not None and c)
        acc.case(case, nontrivial=npre > 0, key=(tuple(names), tuple(i for i, c in enumerate(x.choices) if c), tuple(c for c in x.choices if c), tag))
        acc.transitions += 1
        acc.traces += 1
        if not first:
            first.append((list(x.choices), [repr(r) for r in x.results], [repr(e) for e in x.errors]))
        for tid, n in enumerate(names):
            if x.errors[tid] is not None:
                acc.violation("thread_raises/%s|%s" % (n, "+".join(names)), "thread %d (%s) raised %s: %s under schedule with switches at %r"
                              % (tid, n, type(x.errors[tid]).__name__, x.errors[tid], switch_points(x)), case)
            elif x.results[tid] != want[tid]:
                acc.violation("thread_interference/%s|%s" % (n, "+".join(names)),
                              "thread %d (%s) observed %s, alone it observes %s; switches at %r"
                              % (tid, n, repr(x.results[tid])[:120], repr(want[tid])[:120], switch_points(x)), case)
        acc.outcome((tuple(names), tuple(repr(r) for r in x.results)))

    n, capped = sched.explore(make, pre, bound, on_exec, gran, max_schedules)
    if capped:
        acc.caps.append("schedule cap %d hit for %r (%s)" % (max_schedules, names, tag))
    # determinism: the first schedule replayed must give identical observations
    if first:
        x = sched.Execution(make(), first[0][0], pre, gran).run()
        again = (list(x.choices), [repr(r) for r in x.results], [repr(e) for e in x.errors])
        if again != first[0]:
            raise RuntimeError("harness nondeterministic: replay of the same schedule differs for %r" % (names,))
    acc.add("schedules", n)
    return n


def switch_points(x):
    return [(i, x.points[i][2]) for i, c in enumerate(x.choices) if c][:4]


HASHSEED_CHILD = r"""
import sys, json, hashlib
sys.path.insert(0, sys.argv[1])
sys.path.insert(1, sys.argv[2])
import os
os.environ["VF_REPO"] = sys.argv[1]
from vf.props import c09, c04
from vf import cmdspace as CS
out = {}
for name in c09.POOL:
    for v in (0, 1):
        ob, dec, enc = c09.solo(name, v)
        out["%s/%d" % (name, v)] = hashlib.sha1(repr((ob, sorted(dec.items()), enc)).encode()).hexdigest()
Inq = CS.get_class("Inquiry")
for tag, d in (("short", {"t10_vendor_identification": b"ATA", "product_identification": b"QEMU HARDDISK", "product_revision_level": b"2.5+", "version": 6, "cmdque": 1,
                           "peripheral_device_type": 0, "peripheral_qualifier": 0, "additional_length": 91}),
               ("exact", {"t10_vendor_identification": b"VENDOR 8", "product_identification": b"PRODUCT-16-BYTES", "product_revision_level": b"REV4", "version": 6, "tpgs": 3,
                          "peripheral_device_type": 5, "peripheral_qualifier": 1, "additional_length": 91})):
    try:
        out["inquiry/" + tag] = bytes(Inq.marshall_datain(dict(d))).hex()
    except Exception as e:
        out["inquiry/" + tag] = "raised " + type(e).__name__
for n, case in sorted(c09.DECODER_CASES.items()):
    if case is None:
        continue
    fmt, data, exp, dec = c04.build(case)
    out["decode/" + n] = hashlib.sha1(repr(c09.freeze(dec(bytearray(data)))).encode()).hexdigest()
print(json.dumps(out, sort_keys=True))
"""


def run_hashseed():
    """'depends only on the command's class and its own arguments': the same battery of builds and decodes in fresh interpreters that
    differ only in PYTHONHASHSEED (string hash order, set iteration order) gives the same bytes everywhere"""
    import json
    import subprocess
    import sys
    root = os.path.dirname(os.path.dirname(os.path.dirname(os.path.abspath(__file__))))
    repo = os.environ.get("VF_REPO", "/repo")
    res = {}
    for seed in ("0", "1", "2", "3", "4242", "random"):
        env = dict(os.environ, PYTHONHASHSEED=seed)
        p = subprocess.run([sys.executable, "-c", HASHSEED_CHILD, repo, root], capture_output=True, text=True, env=env, timeout=600)
        if p.returncode != 0:
            return [("hashseed/child_failed", "PYTHONHASHSEED=%s: %s" % (seed, p.stderr[-400:]))], 0
        res[seed] = json.loads(p.stdout.strip().splitlines()[-1])
    out = []
    ref = res["0"]
    for seed, r in res.items():
        for k in ref:
            if r.get(k) != ref[k]:
                out.append(("hashseed/differs/%s" % k.split("/")[0], "%s: with PYTHONHASHSEED=%s the library produces %s, with 0 %s (equal inputs, another process)"
                            % (k, seed, str(r.get(k))[:60], str(ref[k])[:60])))
                break
    return out, len(ref) * len(res)


def count_for(name, tier):
    if tier == "quick":
        return 300
    return 66000 if name in ("Read10", "TestUnitReady", "Inquiry", "dec:inquiry_std", "dec:reportluns", "dec:prkeys", "dec:sense") else 1100


def run_count(name, n):
    """the same build (constructor, decode of its CDB, re-encode) or the same decode N times in a row: every repetition observes what
    the first one observed (N crosses 256; thorough: 1024, and 65536 for seven cheap bodies)"""
    body = thread_body(name, 0)
    first = body()
    for i in range(1, n):
        again = body()
        if again != first:
            return [("count_differs/%s" % name, "%s: repetition #%d of %d identical operations observes something else than the first" % (name, i + 1, n))]
    return []


def run_reentrant(a, b, acc=None):
    """same-thread re-entrancy (what a signal handler, a finalizer or a weakref callback does): operation B runs to completion in the
    SAME thread between two source lines of operation A - at every line of A inside the library in turn. A and B each observe what
    they observe alone."""
    import os
    import sys
    pre = os.path.join(os.environ.get("VF_REPO", "/repo"), "pyscsi") + os.sep
    body_a, body_b = thread_body(a, 0), thread_body(b, 0)
    ref_a, ref_b = solo_thread(a, 0), solo_thread(b, 0)
    out = []
    k = 0
    while True:
        state = {"n": 0, "fired": False, "b": None, "where": None}

        def tracer(frame, event, arg):
            if not frame.f_code.co_filename.startswith(pre):
                return None
            return line_tracer

        def line_tracer(frame, event, arg):
            if event == "line" and not state["fired"]:
                if state["n"] == k:
                    state["fired"] = True
                    state["where"] = "%s:%d" % (os.path.basename(frame.f_code.co_filename), frame.f_lineno)
                    sys.settrace(None)
                    try:
                        state["b"] = body_b()
                    except Exception as e:   # noqa: BLE001
                        state["b"] = ("raised", type(e).__name__, str(e)[:80])
                    finally:
                        sys.settrace(tracer)
                state["n"] += 1
            return line_tracer
        sys.settrace(tracer)
        try:
            try:
                got_a = body_a()
            except Exception as e:   # noqa: BLE001
                got_a = ("raised", type(e).__name__, str(e)[:80])
        finally:
            sys.settrace(None)
        if not state["fired"]:
            break
        if acc is not None:
            acc.transitions += 1
        for who, got, ref in ((a, got_a, ref_a), (b, state["b"], ref_b)):
            if type(got) is not type(ref) or repr(got) != repr(ref):
                out.append(("reentrant/%s" % who, "%s interrupted at line #%d (%s) by %s running to completion in the same thread: %s observes %s, alone %s"
                            % (a, k, state["where"], b, who, str(got)[:120], str(ref)[:120])))
        if out:
            return out, k + 1
        k += 1
    return out, k


def decoders_only_opcodes(filename, lineno, event):
    """scheduling points at every bytecode instruction of the command modules (not of the shared converter): thread switches INSIDE a
    source line (between evaluating an expression and storing its result)"""
    return "scsi_cdb_" in filename


decoders_only_opcodes.opcodes = True

# (first thread, second thread, decoder run alone afterwards in the same process)
OPCODE_PAIRS = [("dec:reportluns1", "dec:reportluns6", "dec:reportluns12"), ("dec:reportluns6", "dec:reportluns1", "dec:reportluns12"),
                ("dec:reportluns", "dec:reportluns6", "dec:reportluns12"), ("dec:prkeys", "dec:prkeys", "dec:prkeys"),
                ("dec:getlbastatus", "dec:reportluns6", "dec:getlbastatus"), ("dec:rtpg", "dec:rtpg", "dec:rtpg"), ("dec:inquiry_std", "dec:vpd83", "dec:vpd83"),
                ("dec:res", "dec:res_dt", "dec:res_ie"), ("dec:discinfo0", "dec:discinfo1", "dec:discinfo2")]


def _in_child(fn):
    """run fn() in a forked child (the state of this process - classes not yet used - is the child's starting state); returns its
    pickled result"""
    import pickle
    r, w = os.pipe()
    pid = os.fork()
    if pid == 0:
        try:
            os.close(r)
            try:
                res = ("ok", fn())
            except BaseException as e:   # noqa: BLE001
                res = ("err", "%s: %s" % (type(e).__name__, e))
            with os.fdopen(w, "wb") as f:
                f.write(pickle.dumps(res))
        finally:
            os._exit(0)
    os.close(w)
    with os.fdopen(r, "rb") as f:
        data = f.read()
    os.waitpid(pid, 0)
    st, val = pickle.loads(data)
    if st != "ok":
        raise RuntimeError("child failed: %s" % val)
    return val


def run_opsched(names, acc=None, only=None):
    """two decoders in two threads, ONE preemption at every bytecode instruction of the command modules, every schedule started in a
    FRESHLY FORKED process in which neither decoder has run yet (what the first use in a process builds lazily is built under the
    interleaving); after the schedule the second decoder runs once more alone in that process.  Every observation equals what the
    decoder observes alone in a fresh process."""
    repo = os.environ.get("VF_REPO", "/repo")
    pre = os.path.join(repo, "pyscsi") + "/"
    gran = decoders_only_opcodes
    # per-instruction instrumentation is installed on first request: warm it up on a decoder that is not part of the experiment
    warm = "dec:prcaps" if "dec:prcaps" not in names else "dec:sense"
    sched.Execution([decoder_body(warm), decoder_body(warm)], [], pre, gran).run()
    sched.Execution([decoder_body(warm), decoder_body(warm)], [], pre, gran).run()
    later_name = names[2] if len(names) > 2 else names[1]
    names = list(names[:2])
    want = [_in_child(lambda n=n: decoder_body(n)()) for n in names + [later_name]]

    def one(choices):
        def fn():
            x = sched.Execution([decoder_body(n) for n in names], choices, pre, gran).run()
            later = decoder_body(later_name)()
            return ([None if e is None else "%s: %s" % (type(e).__name__, e) for e in x.errors], list(x.results), later, len(x.points),
                    [len(p[1]) if isinstance(p[1], (list, tuple)) else 1 for p in x.points])
        return _in_child(fn)
    out = []

    def judge(res, choices):
        errors, results, later, npoints, _ = res
        for tid, n in enumerate(names):
            if errors[tid] is not None:
                out.append(("opsched/thread_raises/%s" % n, "%r with a switch at instruction point %d in a fresh process: thread %d raised %s" % (names, len(choices) - 1, tid, errors[tid])))
            elif results[tid] != want[tid]:
                out.append(("opsched/thread_interference/%s" % n, "%r with a switch at instruction point %d in a fresh process: thread %d observes another result than alone" % (names, len(choices) - 1, tid)))
        if later != want[2]:
            out.append(("opsched/later_decode/%s" % later_name, "%r with a switch at instruction point %d in a fresh process: a LATER decode of %s alone gives %s, in a fresh process %s"
                        % (names, len(choices) - 1, later_name, str(later)[:160], str(want[2])[:160])))
    if only is not None:
        judge(one(only), only)
        return out, 1
    base = one([])
    judge(base, [])
    npoints = base[3]
    n = 1
    for i in range(npoints):
        if out:
            break
        choices = [0] * i + [1]
        judge(one(choices), choices)
        n += 1
        if acc is not None:
            acc.transitions += 1
    return out, n


def run_scan(order):
    """an opcode scanner in the same process: every pool class observed (build, decode, re-encode), then a minimal CDB marshalled for
    every one of the 256 operation code values (those without a fixed length are refused) in the given order, the pool observed again
    after every 32 values: nothing changes"""
    from pyscsi.pyscsi.scsi_command import SCSICommand
    bodies = {n: thread_body(n, 0) for n in POOL}
    try:
        ref = {n: b() for n, b in bodies.items()}
    except Exception as e:   # noqa: BLE001
        return [("scan_reference_raises", "building the pool classes once in a fresh process raised %s: %s" % (type(e).__name__, e))]
    codes = list(range(256))
    if order == "down":
        codes.reverse()
    elif order == "groups":
        codes = [c for g in (0x80, 0xA0, 0x00, 0x20, 0x40, 0xC0, 0x60, 0xE0) for c in range(g, g + 0x20)]
    elif order == "interleaved":
        codes = [((i & 7) << 5) | (i >> 3) for i in range(256)]
    for i, code in enumerate(codes):
        try:
            SCSICommand.marshall_cdb({"opcode": code})
        except Exception:   # noqa: BLE001
            pass
        if i % 32 == 31:
            for n, b in bodies.items():
                try:
                    again = b()
                except Exception as e:   # noqa: BLE001
                    again = ("raised", type(e).__name__, str(e)[:60])
                if type(again[0]) is not type(ref[n][0]) or again != ref[n]:
                    return [("scan_differs/%s" % n, "%s: after CDBs for %d operation code values (order %s, last %#04x) had been marshalled in the process, the same build gives %s, before %s"
                             % (n, i + 1, order, code, again[0].hex() if isinstance(again[0], bytes) else again, ref[n][0].hex()))]
    return []


SEG_KINDS = (0x00, 0x01, 0x02, 0x0B, 0x0C, 0x0D)


def seg_outcome(ver, kind, extra):
    """build an EXTENDED COPY with one segment descriptor of the given kind (freshly made, equal arguments every time)"""
    name = "ExtendedCopy%d" % ver
    cls = CS.get_class(name)
    src, dst = ("source_target_descriptor_id", "destination_target_descriptor_id") if ver == 4 else ("source_cscd_descriptor_id", "destination_cscd_descriptor_id")
    seg = {"descriptor_type_code": kind, src: 1, dst: 2, "block_device_number_of_blocks": 9}
    if kind in (0x02, 0x0D):
        seg.update({"source_block_device_logical_block_address": 3, "destination_block_device_logical_block_address": 4})
    else:
        seg.update({"stream_device_transfer_length": 5, "block_device_logical_block_address": 6})
    seg.update(extra)
    try:
        c = cls(opcode_for(name), segment_descriptor_list=[seg])
        return ("built", bytes(c.cdb).hex(), bytes(c.dataout).hex())
    except Exception as e:   # noqa: BLE001
        return ("refused", type(e).__name__)


def run_segstar(ver, kind, extra_key):
    """in a process where no EXTENDED COPY was built yet: command A (one segment kind, optionally carrying a flag key), then for every
    other kind B: build B, build A again - A's outcome (bytes, or the refusal) never changes"""
    extra = {extra_key: 1} if extra_key else {}
    ref = seg_outcome(ver, kind, extra)
    out = []
    for kb in SEG_KINDS:
        for eb in ({}, {"dc": 1}, {"cat": 1}, {"pad": 1}):
            seg_outcome(ver, kb, eb)
            again = seg_outcome(ver, kind, extra)
            if again != ref:
                out.append(("segment_history/ExtendedCopy%d" % ver, "ExtendedCopy%d with a segment of kind %#04x%s: %r at first, %r after a command with a segment of kind %#04x %r was built"
                            % (ver, kind, " and key %s" % extra_key if extra_key else "", ref[:2], again[:2], kb, eb)))
                return out
    return out


RESULT_METHODS = ("inquiry", "readcapacity10", "readcapacity16", "reportluns", "modesense6", "modesense10", "getlbastatus", "readelementstatus")


def run_results(method, how):
    """the decoded result a caller holds is the caller's: a shallow copy of the command given another answer and decoded (how=copy),
    the same command given another answer and decoded again (how=again), or a second command of the class decoding another answer
    (how=other) never changes the dictionary obtained from the first decode"""
    from vf import facade as F
    from vf.props import c13
    import pyscsi.pyscsi.scsi_enum_command as E
    name, key, args = F.FACADE[method]
    st = F.sets_offering(method)[0]
    dev = c13.RecDev(getattr(E, st))
    from pyscsi.pyscsi.scsi import SCSI
    s = SCSI(dev, 512)
    dev.opcodes = getattr(E, st)
    x1, x2 = c13.response_for(method, dict(args), 0), c13.response_for(method, dict(args), 1)
    if x1 is None or x1 == x2:
        return []
    dev.response = x1
    a = F.call(s, method)
    r1 = a.result
    snap = freeze(copy.deepcopy(r1))
    dk = c13.decoder_kwargs(method, dict(args))
    where = "%s decoded, the result dictionary kept by the caller; then %s" % (method, {"copy": "copy.copy of the command given another answer and decoded",
                                                                                   "again": "the same command given another answer and decoded again",
                                                                                   "other": "a second command of the class decoding another answer"}[how])
    try:
        if how == "copy":
            b = copy.copy(a)
            b.datain = bytearray(x2.ljust(len(a.datain), b"\0")[:len(a.datain)])
            b.unmarshall(**dk)
        elif how == "again":
            n = min(len(x2), len(a.datain))
            a.datain[:n] = x2[:n]
            a.unmarshall(**dk)
        else:
            dev.response = x2
            F.call(s, method)
    except Exception as e:   # noqa: BLE001
        return [("results/raises/%s" % method, "%s: raised %s: %s" % (where, type(e).__name__, e))]
    if freeze(r1) != snap:
        return [("results/changed/%s" % how, "%s: the dictionary the caller holds changed" % where)]
    return []


def run_select_from_sense(ten, ps):
    """tools/swp.py's flow: MODE SENSE decoded, its result handed to MODE SELECT as it is: building the MODE SELECT command leaves the
    MODE SENSE command's decoded result exactly as it was (PS bit included)"""
    from vf import facade as F
    from vf.props import c13
    from vf.spec import responses as R
    import pyscsi.pyscsi.scsi_enum_command as E
    from pyscsi.pyscsi.scsi import SCSI
    dev = c13.RecDev(E.sbc)
    s = SCSI(dev, 512)
    dev.opcodes = E.sbc
    fields, _ = R.MODE_PAGES[(0x0A, None)]
    page = bytearray(R.mode_page(0x0A, None, {fields[0][0]: 1, fields[-1][0]: 0x1234}))
    if ps:
        page[0] |= 0x80
    dev.response = R.mode_data(bool(ten), {"medium_type": 0, "device_specific_parameter": 0}, b"", [bytes(page)])
    sense = (s.modesense10 if ten else s.modesense6)(0x0A)
    held = sense.result
    snap = freeze(copy.deepcopy(held))
    try:
        (s.modeselect10 if ten else s.modeselect6)(held)
    except Exception as e:   # noqa: BLE001
        return [("select_from_sense/raises", "MODE SELECT(%d) built from the decoded MODE SENSE result raised %s: %s" % (10 if ten else 6, type(e).__name__, e))]
    if freeze(held) != snap:
        return [("select_from_sense/result_changed", "building MODE SELECT(%d) from a MODE SENSE result (PS=%d) changed that result: the other command's decoded data are no longer what its device sent"
                 % (10 if ten else 6, ps))]
    return []


KEEP_SIZES = (96, 512, 4096, 8192, 65536, 1 << 20)


def keep_builders():
    """name -> callable(size) building a command whose data-in buffer has that many bytes"""
    from pyscsi.pyscsi.scsi_enum_command import sbc, smc
    R10, R16, INQ, RL, MS10, RES = (CS.get_class(n) for n in ("Read10", "Read16", "Inquiry", "ReportLuns", "ModeSense10", "ReadElementStatus"))
    return {
        "Read10": lambda n: R10(sbc.READ_10, 512, 0, n // 512) if n % 512 == 0 and n // 512 < 65536 else None,
        "Read16": lambda n: R16(sbc.READ_16, 512, 0, n // 512) if n % 512 == 0 else None,
        "Inquiry": lambda n: INQ(sbc.INQUIRY, alloclen=n) if n < 65536 else None,
        "ReportLuns": lambda n: RL(sbc.REPORT_LUNS, alloclen=n),
        "ModeSense10": lambda n: MS10(sbc.MODE_SENSE_10, 0x3F, alloclen=n) if n < 65536 else None,
        "ReadElementStatus": lambda n: RES(smc.READ_ELEMENT_STATUS, 0, 1, alloclen=n),
    }


def run_keep_datain(first, second, size):
    """the caller keeps the data-in buffer of a finished command (r = s.read16(...).datain, as the shipped examples do), the command
    object itself is dropped and collected, then another command with a data-in buffer of the same size is built and filled: the
    buffer the caller holds is its own - not the new command's, unchanged by it, and the caller's writes do not show in the new one"""
    import gc
    mk = keep_builders()
    c1 = mk[first](size)
    if c1 is None or len(c1.datain) != size:
        return []
    mine = c1.datain
    pattern = bytes((i * 13 + 5) & 0xFF for i in range(min(size, 4096)))
    mine[:len(pattern)] = pattern
    del c1
    gc.collect()
    c2 = mk[second](size)
    if c2 is None or len(c2.datain) != size:
        return []
    out = []
    where = "%s with a %d byte data-in buffer kept by the caller and the command dropped, then %s of the same size" % (first, size, second)
    if c2.datain is mine:
        out.append(("keep_datain/same_object", "%s: the new command's data-in buffer IS the buffer the caller still holds" % where))
    if bytes(mine[:len(pattern)]) != pattern:
        out.append(("keep_datain/wiped", "%s: building the new command changed the caller's buffer" % where))
    c2.datain[:8] = b"\xee" * 8
    if bytes(mine[:len(pattern)]) != pattern:
        out.append(("keep_datain/overwritten", "%s: filling the new command's data-in changed the caller's buffer" % where))
    mine[8:16] = b"\xdd" * 8
    if bytes(c2.datain[8:16]) == b"\xdd" * 8:
        out.append(("keep_datain/writes_through", "%s: the caller writing into its own buffer changed the new command's data-in" % where))
    return out


def discard_cases():
    out = []
    for name in ("Write10", "Write12", "Write16", "WriteSame10", "WriteSame16"):
        out.append([name, None, 0])
    for name in ("ATAPassThrough12", "ATAPassThrough16"):
        for command in range(256):
            for t_dir in (0, 1):
                out.append([name, command, t_dir])
    for name in ("ExtendedCopy4", "ExtendedCopy5"):
        out.append([name, None, 0])
    return out


def run_discard(case):
    """two commands built over ONE caller-owned buffer; the first is discarded (reference dropped, garbage collected): the buffer,
    and with it the second command, must be as before"""
    import gc
    name, command, t_dir = case
    cls = CS.get_class(name)
    op = opcode_for(name)
    buf = bytearray(bytes((0x30 + i) & 0xFF for i in range(512)))
    before = bytes(buf)

    def mk():
        if name.startswith("ATA"):
            return cls(op, 4 if t_dir else 5, 2, 1, t_dir, 0, 0, 0, 1, 0, command, data=buf)
        if name.startswith("WriteSame"):
            return cls(op, 512, 0, 1, buf)
        if name.startswith("Write"):
            return cls(op, 512, 0, 1, buf)
        return cls(op, inline_data=buf)
    where = "%s(%s) over a caller-owned buffer" % (name, "command=%#04x, t_dir=%d" % (command, t_dir) if command is not None else "...")
    try:
        first, second = mk(), mk()
    except Exception as e:   # noqa: BLE001
        return [("discard/construct_raises/%s" % name, "%s: %s: %s" % (where, type(e).__name__, e))]
    second_before = (bytes(second.cdb), bytes(second.dataout), bytes(second.datain))
    del first
    gc.collect()
    out = []
    if bytes(buf) != before:
        out.append(("discard/caller_buffer_changed/%s" % name, "%s: discarding one command changed the caller's buffer (%s... -> %s...)" % (where, before[:8].hex(), bytes(buf)[:8].hex())))
    if (bytes(second.cdb), bytes(second.dataout), bytes(second.datain)) != second_before:
        out.append(("discard/other_command_changed/%s" % name, "%s: discarding one command changed another command's CDB or buffers" % where))
    del second
    gc.collect()
    if bytes(buf) != before:
        out.append(("discard/caller_buffer_changed/%s" % name, "%s: discarding the commands changed the caller's buffer" % where))
    return out


def run_case(case):
    if case[0] == "select_from_sense":
        return run_select_from_sense(case[1], case[2])
    if case[0] == "opsched":
        return run_opsched(case[1], None, case[2] if case[2] is not None else [])[0]
    if case[0] == "results":
        return run_results(case[1], case[2])
    if case[0] == "keep_datain":
        return run_keep_datain(*case[1:])
    if case[0] == "reentrant":
        return run_reentrant(case[1], case[2])[0]
    if case[0] == "scan":
        return run_scan(case[1])
    if case[0] == "count":
        return run_count(case[1], case[2])
    if case[0] == "segstar":
        return run_segstar(*case[1:])
    if case[0] == "hashseed":
        return run_hashseed()[0]
    if case[0] == "discard":
        return run_discard(case[1])
    if case[0] == "first":
        from vf.props import c02
        return [x for (_, _, v) in c02.run_first_use(case[1]) for x in v]
    if case[0] == "daba":
        from vf.props import c04
        return [("decode_history/" + k.split("/", 1)[1], w)
                for k, w in c04.run_aba_star(DECODER_CASES[case[1]], [DECODER_CASES[n] for n in case[2]])]
    if case[0] == "hist":
        names, hist = case[1], [tuple(o) for o in case[2]]
        return run_history(names, hist)[0]
    _, names, choices, tag = case
    repo = os.environ.get("VF_REPO", "/repo")
    pre = os.path.join(repo, "pyscsi") + "/"
    gran_ = {"coarse": coarse, "calls": calls_only, "opcodes": decoders_only_opcodes}.get(tag)
    if getattr(gran_, "opcodes", False):
        sched.Execution(sched_bodies(names), [], pre, gran_).run()
    x = sched.Execution(sched_bodies(names), choices, pre, gran_).run()
    want = sched_want(names)
    out = []
    for tid, n in enumerate(names):
        if x.errors[tid] is not None:
            out.append(("thread_raises/%s|%s" % (n, "+".join(names)), "thread %d raised %r" % (tid, x.errors[tid])))
        elif x.results[tid] != want[tid]:
            out.append(("thread_interference/%s|%s" % (n, "+".join(names)), "thread %d (%s) observed %s, alone %s"
                        % (tid, n, repr(x.results[tid])[:120], repr(want[tid])[:120])))
    return out


def replay(case):
    return run_case(case)


MAXTASKS = 1      # fresh forked worker per partition (the decode histories need a process in which nothing was decoded yet)


def run_partition(part, tier, seed):
    acc = Acc(seed)
    b = bounds(tier)
    if part[0] == "reentrant":
        a = part[1]
        ent = POOL + (list(THREAD_DECODERS) if tier != "quick" else ["dec:inquiry_std", "dec:vpd83", "dec:prfull"])
        for b in ent:
            case = ["reentrant", a, b]
            acc.case(case, nontrivial=True, key=tuple(case))
            v, npoints = run_reentrant(a, b, acc)
            acc.add("reentrancy_points", npoints)
            acc.traces += npoints
            for k, w in v:
                acc.violation(k, w, case)
            acc.outcome((tuple(case), npoints, tuple(k for k, _ in v)))
        return acc
    if part[0] == "scan":
        case = list(part)
        acc.case(case, nontrivial=True, key=tuple(case))
        v = run_scan(part[1])
        acc.transitions += 256 + 8 * len(POOL)
        acc.traces += 1
        for k, w in v:
            acc.violation(k, w, case)
        acc.outcome((tuple(case), tuple(k for k, _ in v)))
        return acc
    if part[0] == "count":
        case = list(part)
        acc.case(case, nontrivial=True, key=tuple(case))
        v = run_count(part[1], part[2])
        acc.transitions += part[2]
        acc.traces += 1
        for k, w in v:
            acc.violation(k, w, case)
        acc.outcome((tuple(case), tuple(k for k, _ in v)))
        return acc
    if part[0] == "segstar":
        case = list(part)
        acc.case(case, nontrivial=True, key=tuple(case))
        v = run_segstar(*part[1:])
        acc.transitions += 1 + 2 * len(SEG_KINDS) * 4
        acc.traces += 1
        for k, w in v:
            acc.violation(k, w, case)
        acc.outcome((tuple(case), tuple(k for k, _ in v)))
        return acc
    if part[0] == "hashseed":
        case = ["hashseed"]
        acc.case(case, nontrivial=True, key="hashseed")
        v, n = run_hashseed()
        acc.transitions += n
        acc.traces += 6
        for k, w in v:
            acc.violation(k, w, case)
        acc.outcome(("hashseed", tuple(k for k, _ in v)))
        return acc
    if part[0] == "discard":
        for ten in (0, 1):
            for ps in (0, 1):
                case = ["select_from_sense", ten, ps]
                acc.case(case, nontrivial=True, key=repr(case))
                acc.transitions += 2
                try:
                    v = run_select_from_sense(ten, ps)
                except Exception:
                    import traceback
                    v = [("harness_error", traceback.format_exc()[-500:])]
                for k, w in v:
                    acc.violation(k, w, case)
                acc.outcome((repr(case), tuple(k for k, _ in v)))
        for method in RESULT_METHODS:
            for how in ("copy", "again", "other"):
                case = ["results", method, how]
                acc.case(case, nontrivial=True, key=repr(case))
                acc.transitions += 2
                try:
                    v = run_results(method, how)
                except Exception:
                    import traceback
                    v = [("harness_error", traceback.format_exc()[-500:])]
                for k, w in v:
                    acc.violation(k, w, case)
                acc.outcome((repr(case), tuple(k for k, _ in v)))
        for first in keep_builders():
            for second in keep_builders():
                for size in KEEP_SIZES:
                    for rounds in (1,):
                        case = ["keep_datain", first, second, size]
                        acc.case(case, nontrivial=True, key=repr(case))
                        acc.transitions += 3
                        try:
                            v = run_keep_datain(first, second, size)
                        except Exception:
                            import traceback
                            v = [("harness_error", traceback.format_exc()[-500:])]
                        for k, w in v:
                            acc.violation(k, w, case)
                        acc.outcome((repr(case), tuple(k for k, _ in v)))
        for c in discard_cases():
            case = ["discard", c]
            acc.case(case, nontrivial=True, key=repr(case))
            acc.transitions += 3
            try:
                v = run_discard(c)
            except Exception:
                import traceback
                v = [("harness_error", traceback.format_exc()[-500:])]
            for k, w in v:
                acc.violation(k, w, case)
            acc.outcome((repr(case), tuple(k for k, _ in v)))
        acc.traces += 1
        return acc
    if part[0] == "first":
        from vf.props import c02
        case = ["first", part[1]]
        for (n_, bk, v) in c02.run_first_use(part[1]):
            acc.case(case, nontrivial=True, key=("first", part[1], n_, bk))
            acc.transitions += 1
            for k, w in v:
                acc.violation(k, w, case)
            acc.outcome(("first", part[1], n_, bk, tuple(k for k, _ in v)))
        acc.traces += 1
        return acc
    if part[0] == "daba":
        # decode histories in a fresh process: A first (reference), then B, A, B', A, ... over all 20 response kinds:
        # what A decodes to must not depend on anything decoded in between
        from vf.props import c04
        a = part[1]
        others = [n for n in DECODER_CASES if DECODER_CASES[n] is not None and n != a]
        case = ["daba", a, others]
        acc.case(case, nontrivial=True, key=("daba", a))
        v = c04.run_aba_star(DECODER_CASES[a], [DECODER_CASES[n] for n in others])
        acc.transitions += 1 + 2 * len(others)
        acc.traces += 1
        for k, w in v:
            acc.violation("decode_history/" + k.split("/", 1)[1], w, case)
        acc.outcome((a, tuple(k for k, _ in v)))
        return acc
    if part[0] == "opsched":
        # one preemption at EVERY BYTECODE INSTRUCTION of the decoder modules (a thread switch inside a source line), then the first
        # decoder once more alone: what an interleaving leaves behind in the class must not show in a later decode
        names = part[1]
        v, n = run_opsched(names, acc)
        acc.add("schedules", n)
        acc.add("schedules_instruction_granularity_fresh_process", n)
        acc.traces += n
        case = ["opsched", names, ([0] * (n - 2) + [1]) if v and n > 1 else None]
        acc.case(case, nontrivial=True, key=repr(case[:2]))
        for k, w in v:
            acc.violation(k, w, case)
        acc.outcome((tuple(names), n, tuple(k for k, _ in v)))
        return acc
    if part[0] == "sched":
        names = part[1]
        run_schedules(names, b["preemptions_line"], None, acc, "line")
        # windows that need two preemptions (A interrupted, B interrupted, A resumes): all schedules with <= 2 preemptions at
        # function-entry granularity
        if b["preemptions_coarse"] and set(names) <= {"TestUnitReady", "Read10", "Read16", "Inquiry", "ExtendedCopy4"}:
            run_schedules(names, 2, calls_only, acc, "calls", max_schedules=60000)
        if b["preemptions_coarse"]:
            run_schedules(names, b["preemptions_coarse"], coarse, acc, "coarse", max_schedules=40000)
        return acc
    names = part[1]
    depth = b["pair_depth"] if len(names) == 2 else b["triple_depth"]
    ops = ops_for(names)
    seen = set()
    frontier = collections.deque([()])
    v, st = run_history(names, ())
    seen.add(st)
    while frontier:
        hist = frontier.popleft()
        if len(hist) >= depth:
            continue
        for op in ops:
            h2 = hist + (op,)
            case = ["hist", names, [list(o) for o in h2]]
            acc.case(case, nontrivial=True, key=(tuple(names), h2))
            try:
                v, st = run_history(names, h2)
            except Exception:
                import traceback
                v, st = [("harness_error", traceback.format_exc()[-500:])], ("err",)
            acc.transitions += 1
            acc.traces += 1
            for k, w in v:
                acc.violation(k, w, case)
            acc.outcome((tuple(names), st, tuple(k for k, _ in v)))
            if st not in seen:
                seen.add(st)
                frontier.append(h2)
    acc.stateset |= {hash((tuple(names), s)) for s in seen}
    return acc
