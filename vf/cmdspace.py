"""Deviation-bounded enumeration of constructor argument tuples for the 42 command classes (DESIGN §1 shape 1).

A *point* is a dict {constructor parameter: value}; parameters absent from the dict are omitted from the call
(so the library's default applies).  Required parameters are always present (baseline value 0).
All 1-bit parameters form one pseudo-dimension "flags" that is enumerated in full product.
"""
import importlib
import itertools

from vf.spec import bits
from vf.spec import cdb as S

MODEDATA = {"medium_type": 0, "device_specific_parameter": 0,
            "mode_pages": [{"ps": 0, "spf": 0, "page_code": 0x0A, "tst": 1, "d_sense": 1, "busy_timeout_period": 0x1234}]}


def get_class(name):
    c = S.CLASSES[name]
    m = importlib.import_module("pyscsi.pyscsi." + c["module"])
    return getattr(m, c["cls"])


def get_opcode(setname, key):
    import pyscsi.pyscsi.scsi_enum_command as E
    st = getattr(E, setname)
    if key not in st.keys:
        return None
    return getattr(st, key)


def field_width(name, field):
    for (f, b, msb, w) in S.spec_fields(name):
        if f == field:
            return w
    raise KeyError(field)


def dimensions(name, maxbuf, full8=False):
    """[(label, [assignment dicts])]: each dimension is a list of alternative {param: value} dicts (non-baseline)"""
    c = S.CLASSES[name]
    dims = []
    flags = []
    for arg, field in c["args"].items():
        w = field_width(name, field)
        if w == 1:
            flags.append(arg)
            continue
        vals = bits.alphabet(w, full8=full8)
        if field in S.ALLOCATING and (field != "tl" or "blocksize" in c["extra"] or name == "ReadCd"):
            cap = maxbuf // 3072 if name == "ReadCd" else maxbuf
            vals = [v for v in vals if v <= cap]
        base = 0 if arg in c["required"] else None
        dims.append((arg, [{arg: v} for v in vals if v != base]))
    if name in S.ATA_LBA_BYTES:
        w = 8 * len(S.ATA_LBA_BYTES[name])
        dims.append(("lba", [{"lba": v} for v in bits.alphabet(w) if v != 0]))
    if flags:
        alts = []
        for combo in itertools.product((None, 0, 1), repeat=len(flags)):
            d = {a: v for a, v in zip(flags, combo) if v is not None}
            # required flags are always present; skip the all-omitted baseline
            for a in flags:
                if a in c["required"] and a not in d:
                    d = None
                    break
            if d is None:
                continue
            if d == {a: 0 for a in flags if a in c["required"]}:
                continue
            alts.append(d)
        dims.append(("flags", alts))
    return dims


def baseline(name):
    c = S.CLASSES[name]
    b = {a: 0 for a in c["required"] if a in c["args"]}
    if name in S.ATA_LBA_BYTES:
        b["lba"] = 0
    return b


def points(name, k, maxbuf, full8=False):
    """all points deviating from the baseline in at most k dimensions"""
    dims = dimensions(name, maxbuf, full8)
    base = baseline(name)
    yield dict(base), 0
    for r in range(1, k + 1):
        for combo in itertools.combinations(range(len(dims)), r):
            for alts in itertools.product(*[dims[i][1] for i in combo]):
                p = dict(base)
                for a in alts:
                    p.update(a)
                yield p, r


def is_ata_block_missing(name, p):
    return name in S.ATA_LBA_BYTES and p.get("byte_block") and p.get("t_type") and p.get("t_length")


def build_kwargs(name, point, blocksize=1, ata_blocksize=None, nodata=False):
    """constructor keyword arguments for a point (adds the non-field parameters)"""
    c = S.CLASSES[name]
    kw = dict(point)
    for a, v in c["extra"].items():
        if a == "lba":
            continue
        if a == "blocksize":
            kw["blocksize"] = blocksize
        elif v == "TLDATA":
            kw["data"] = bytearray(0 if nodata else blocksize * point.get("tl", 0))
        elif v == "ONEBLOCK":
            kw["data"] = bytearray(b"\x5a" * blocksize)
        elif v == "MODEDATA":
            kw["data"] = MODEDATA
    if name in S.ATA_LBA_BYTES and ata_blocksize is not None:
        kw["blocksize"] = ata_blocksize
    return kw


def expected_fields(name, point):
    """field values a conformant target must read for this point"""
    c = S.CLASSES[name]
    exp = {}
    for arg, field in c["args"].items():
        if arg in point:
            exp[field] = point[arg]
        else:
            exp[field] = c["defaults"].get(field, 0)
    if name in S.ATA_LBA_BYTES:
        exp["lba"] = point.get("lba", 0)
    if c["sa"] is not None:
        exp["service_action"] = c["sa"]
    return exp
