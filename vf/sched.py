"""Cooperative scheduler for real threads: sys.settrace line events + per-thread semaphore baton.

Scheduling points are line events in files under a path prefix (the library).  Exploration is depth-first
over choice sequences (CHESS idiom): replay a prefix, take choice 0 (keep running the current thread)
afterwards, branch wherever the preemption budget allows.
"""
import sys
import threading


class ReplayDivergence(Exception):
    pass


class Execution(object):
    def __init__(self, bodies, prefix, trace_prefix, granularity=None):
        self.bodies = bodies
        self.n = len(bodies)
        self.prefix = list(prefix)
        self.trace_prefix = trace_prefix
        self.granularity = granularity      # None: every line; else callable(filename, lineno, event)->bool
        self.sems = [threading.Semaphore(0) for _ in bodies]
        self.main = threading.Semaphore(0)
        self.done = [False] * self.n
        self.choices = []
        self.points = []          # (running_tid or None, enabled list in canonical order, location)
        self.results = [None] * self.n
        self.errors = [None] * self.n
        self.fail = None

    # -- called by worker threads -------------------------------------------------
    def _decide(self, running, enabled, loc):
        idx = len(self.choices)
        if idx < len(self.prefix):
            c = self.prefix[idx]
            if c >= len(enabled):
                self.fail = ReplayDivergence("choice %d out of range at point %d (%r)" % (c, idx, enabled))
                c = 0
        else:
            c = 0
        self.points.append((running, tuple(enabled), loc))
        self.choices.append(c)
        return enabled[c]

    def point(self, tid, loc):
        enabled = [tid] + [t for t in range(self.n) if t != tid and not self.done[t]]
        if len(enabled) == 1:
            return
        nxt = self._decide(tid, enabled, loc)
        if nxt != tid:
            self.sems[nxt].release()
            self.sems[tid].acquire()

    def finish(self, tid):
        self.done[tid] = True
        rest = [t for t in range(self.n) if not self.done[t]]
        if not rest:
            self.main.release()
            return
        nxt = self._decide(None, rest, "finish") if len(rest) > 1 else rest[0]
        self.sems[nxt].release()

    def _tracer(self, tid):
        pre = self.trace_prefix
        gran = self.granularity

        opcodes = getattr(gran, "opcodes", False)      # a granularity function may ask for bytecode-instruction scheduling points

        def local(frame, event, arg):
            if event == "line" and not opcodes:
                if gran is None or gran(frame.f_code.co_filename, frame.f_lineno, event):
                    self.point(tid, (frame.f_code.co_filename[len(pre):], frame.f_lineno))
            elif event == "opcode" and opcodes:
                if gran(frame.f_code.co_filename, frame.f_lineno, event):
                    self.point(tid, (frame.f_code.co_filename[len(pre):], frame.f_lineno, frame.f_lasti))
            return local

        def glob(frame, event, arg):
            if event == "call" and frame.f_code.co_filename.startswith(pre):
                if opcodes:
                    frame.f_trace_opcodes = True
                elif gran is not None and gran(frame.f_code.co_filename, frame.f_lineno, "call"):
                    self.point(tid, (frame.f_code.co_filename[len(pre):], frame.f_lineno))
                return local
            return None
        return glob

    def _thread(self, tid):
        self.sems[tid].acquire()
        sys.settrace(self._tracer(tid))
        try:
            self.results[tid] = self.bodies[tid]()
        except BaseException as e:   # noqa: BLE001
            self.errors[tid] = e
        finally:
            sys.settrace(None)
            self.finish(tid)

    def run(self):
        ts = [threading.Thread(target=self._thread, args=(i,), daemon=True) for i in range(self.n)]
        for t in ts:
            t.start()
        self.sems[0].release()
        if not self.main.acquire(timeout=60):
            raise RuntimeError("schedule did not terminate (deadlock in harness?)")
        for t in ts:
            t.join(10)
        if self.fail:
            raise self.fail
        return self

    def preemptions_before(self, i):
        n = 0
        for j in range(i):
            running, enabled, _ = self.points[j]
            if running is not None and self.choices[j] != 0:
                n += 1
        return n


def explore(make_bodies, trace_prefix, bound, on_execution, granularity=None, max_schedules=None):
    """DFS over schedules. make_bodies() -> fresh list of callables for each execution.
    on_execution(execution) is called for every complete schedule. returns (schedules, capped)"""
    count = [0]
    capped = [False]
    stack = [[]]
    while stack:
        prefix = stack.pop()
        if max_schedules is not None and count[0] >= max_schedules:
            capped[0] = True
            break
        x = Execution(make_bodies(), prefix, trace_prefix, granularity).run()
        count[0] += 1
        on_execution(x)
        used = 0                      # preemptions taken before point i
        for i in range(len(x.points)):
            running, enabled, _ = x.points[i]
            if i >= len(prefix):
                cost = used + (1 if running is not None else 0)
                if cost <= bound:
                    for alt in range(1, len(enabled)):
                        stack.append(x.choices[:i] + [alt])
            if running is not None and x.choices[i] != 0:
                used += 1
    return count[0], capped[0]
