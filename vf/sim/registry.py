"""Shared state of the stand-in bindings (reset between executions)."""
by_inode = {}        # st_ino -> Target
by_url = {}          # (portal, target, lun) -> Target
sgio_calls = []
sgio_hooks = []
iscsi_events = []
iscsi_tasks = []
contexts = []


def reset():
    by_inode.clear()
    by_url.clear()
    del sgio_calls[:]
    del sgio_hooks[:]
    del iscsi_events[:]
    del iscsi_tasks[:]
    del contexts[:]
