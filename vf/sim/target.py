"""One simulated SCSI logical unit shared by the SG_IO and iSCSI stand-ins.

It decodes CDBs with the oracle's own tables (vf.spec.cdb / vf.spec.bits) - never with the library's.
"""
from vf.spec import bits

GOOD = 0x00
CHECK_CONDITION = 0x02


def fixed_sense(key, asc, ascq, length=18, code=0x70):
    s = bytearray(max(length, 14))
    s[0] = code
    s[2] = key & 0x0F
    s[7] = len(s) - 8
    s[12] = asc
    s[13] = ascq
    return bytes(s[:length]) if length < len(s) else bytes(s)


def desc_sense(key, asc, ascq, code=0x72):
    return bytes([code, key & 0x0F, asc, ascq, 0, 0, 0, 0])


class Target:
    """A conformant block/any-type target with a fault port and a command log."""

    def __init__(self, device_type=0x00, qualifier=0, blocksize=512, nblocks=1 << 41, vendor=b"VERIF   ",
                 product=b"SIMULATED TARGET", revision=b"0001", inq_patch=None):
        self.device_type = device_type
        self.qualifier = qualifier
        self.blocksize = blocksize
        self.nblocks = nblocks
        self.vendor, self.product, self.revision = vendor, product, revision
        self.inq_patch = dict(inq_patch or {})      # {byte index: value} applied to the standard INQUIRY data (bytes other than 0)
        self.disk = {}                 # lba -> bytes(blocksize)
        self.extents = []              # large WRITE SAME ranges: (seq, lba, n, block); resolved by sequence number against self.stamp
        self.stamp = {}                # lba -> seq of the last single-block write
        self.seq = 0
        self.script = []               # pending (status, sense) answers; empty -> GOOD
        self.log = []                  # one dict per command received
        self.responder = None          # optional callable(cdb) -> bytes to place into data-in (overrides handlers)
        self.synced = 0

    # ------------------------------------------------------------------
    def inquiry_data(self):
        d = bytearray(96)
        d[0] = ((self.qualifier & 7) << 5) | (self.device_type & 0x1F)
        d[2] = 0x06
        d[3] = 0x02
        d[4] = 96 - 5
        d[8:16] = self.vendor
        d[16:32] = self.product
        d[32:36] = self.revision
        for i, v in self.inq_patch.items():
            if i != 0:
                d[int(i)] = v
        return bytes(d)

    def zero(self):
        return bytes(self.blocksize)

    # ------------------------------------------------------------------
    def command(self, cdb, dataout, datain, transport):
        """returns (status, sense). Fills datain in place on GOOD."""
        cdb = bytes(cdb)
        rec = {"cdb": cdb, "transport": transport,
               "dataout_id": id(dataout), "datain_id": id(datain),
               "dataout": bytes(dataout) if dataout is not None else None,
               "datain_len": len(datain) if datain is not None else None}
        self.log.append(rec)
        if self.script:
            status, sense = self.script.pop(0)
            if callable(status):
                status = status()          # (a scripted side effect at the moment the command is in flight, e.g. the node is replaced)
            if isinstance(status, BaseException):
                rec["status"] = "fault"
                raise status          # fault port: the binding fails (I/O error on the transport) instead of completing the command
            rec["status"] = status
            if status != GOOD:
                return status, sense
        else:
            rec["status"] = GOOD
        if self.responder is not None:
            data = self.responder(cdb)
            if data is not None and datain is not None:
                n = min(len(data), len(datain))
                datain[:n] = data[:n]
                rec["transferred"] = n
            return GOOD, None
        op = cdb[0]
        h = getattr(self, "op_%02x" % op, None)
        if h is None:
            return GOOD, None
        res = h(cdb, dataout, datain)
        if res is not None:
            rec["status"] = res[0]
            return res
        return GOOD, None

    def _fill(self, datain, data):
        if datain is None:
            return
        n = min(len(data), len(datain))
        datain[:n] = data[:n]
        if self.log:
            self.log[-1]["transferred"] = n

    # -- SPC -----------------------------------------------------------
    def op_12(self, cdb, dataout, datain):          # INQUIRY
        evpd = bits.extract(cdb, 1, 0, 1)
        alloc = bits.extract(cdb, 3, 7, 16)
        if evpd:
            return CHECK_CONDITION, fixed_sense(5, 0x24, 0)
        self._fill(datain, self.inquiry_data()[:alloc])

    # -- SBC -----------------------------------------------------------
    def op_25(self, cdb, dataout, datain):          # READ CAPACITY(10)
        last = min(self.nblocks - 1, 0xFFFFFFFF)
        self._fill(datain, last.to_bytes(4, "big") + self.blocksize.to_bytes(4, "big"))

    def op_9e(self, cdb, dataout, datain):          # SERVICE ACTION IN(16)
        sa = bits.extract(cdb, 1, 4, 5)
        alloc = bits.extract(cdb, 10, 7, 32)
        if sa == 0x10:
            d = bytearray(32)
            d[0:8] = (self.nblocks - 1).to_bytes(8, "big")
            d[8:12] = self.blocksize.to_bytes(4, "big")
            self._fill(datain, bytes(d)[:alloc])
        elif sa == 0x12:                              # GET LBA STATUS: one descriptor, everything mapped
            lba = bits.extract(cdb, 2, 7, 64)
            d = bytearray(24)
            d[0:4] = (20).to_bytes(4, "big")
            d[8:16] = lba.to_bytes(8, "big")
            d[16:20] = min(self.nblocks - lba, 0xFFFFFFFF).to_bytes(4, "big") if lba < self.nblocks else bytes(4)
            self._fill(datain, bytes(d)[:alloc])
        else:
            return CHECK_CONDITION, fixed_sense(5, 0x20, 0)

    def _read(self, lba, n, datain):
        if lba + n > self.nblocks:
            return CHECK_CONDITION, fixed_sense(5, 0x21, 0)
        out = b"".join(self.block_at(lba + i) for i in range(n))
        self._fill(datain, out)

    def block_at(self, lba):
        best_seq, data = self.stamp.get(lba, 0), self.disk.get(lba)
        for (seq, start, n, block) in self.extents:
            if start <= lba < start + n and seq > best_seq:
                best_seq, data = seq, block
        return data if data is not None else self.zero()

    def _write(self, lba, n, dataout):
        if lba + n > self.nblocks:
            return CHECK_CONDITION, fixed_sense(5, 0x21, 0)
        data = bytes(dataout) if dataout is not None else b""
        if len(data) < n * self.blocksize:
            return CHECK_CONDITION, fixed_sense(5, 0x26, 0)   # short data-out
        self.seq += 1
        for i in range(n):
            self.disk[lba + i] = data[i * self.blocksize:(i + 1) * self.blocksize]
            self.stamp[lba + i] = self.seq

    def op_28(self, cdb, dataout, datain):
        return self._read(bits.extract(cdb, 2, 7, 32), bits.extract(cdb, 7, 7, 16), datain)

    def op_a8(self, cdb, dataout, datain):
        return self._read(bits.extract(cdb, 2, 7, 32), bits.extract(cdb, 6, 7, 32), datain)

    def op_88(self, cdb, dataout, datain):
        return self._read(bits.extract(cdb, 2, 7, 64), bits.extract(cdb, 10, 7, 32), datain)

    def op_2a(self, cdb, dataout, datain):
        return self._write(bits.extract(cdb, 2, 7, 32), bits.extract(cdb, 7, 7, 16), dataout)

    def op_aa(self, cdb, dataout, datain):
        return self._write(bits.extract(cdb, 2, 7, 32), bits.extract(cdb, 6, 7, 32), dataout)

    def op_8a(self, cdb, dataout, datain):
        return self._write(bits.extract(cdb, 2, 7, 64), bits.extract(cdb, 10, 7, 32), dataout)

    def _write_same(self, lba, n, unmap, ndob, dataout):
        if n == 0 or lba + n > self.nblocks:
            return CHECK_CONDITION, fixed_sense(5, 0x24, 0)
        if ndob:
            block = self.zero()
        else:
            data = bytes(dataout) if dataout is not None else b""
            if len(data) != self.blocksize:
                return CHECK_CONDITION, fixed_sense(5, 0x26, 0)
            block = data
        self.seq += 1
        if n > 4096:
            self.extents.append((self.seq, lba, n, block))
        else:
            for i in range(n):
                self.disk[lba + i] = block
                self.stamp[lba + i] = self.seq
        # an unmapped block of this target reads back as the data written (LBPRZ=0 semantics are not modelled)

    def op_41(self, cdb, dataout, datain):
        return self._write_same(bits.extract(cdb, 2, 7, 32), bits.extract(cdb, 7, 7, 16), bits.extract(cdb, 1, 3, 1), 0, dataout)

    def op_93(self, cdb, dataout, datain):
        return self._write_same(bits.extract(cdb, 2, 7, 64), bits.extract(cdb, 10, 7, 32), bits.extract(cdb, 1, 3, 1),
                                bits.extract(cdb, 1, 0, 1), dataout)

    def op_35(self, cdb, dataout, datain):
        self.synced += 1

    def op_91(self, cdb, dataout, datain):
        self.synced += 1
