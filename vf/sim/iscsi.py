"""Stand-in for the python-libiscsi binding (module name 'iscsi'). Only the API the real binding has."""
from vf.sim import registry

SCSI_XFER_NONE = 0
SCSI_XFER_READ = 1
SCSI_XFER_WRITE = 2
ISCSI_SESSION_DISCOVERY = 1
ISCSI_SESSION_NORMAL = 2
ISCSI_HEADER_DIGEST_NONE = 0
ISCSI_HEADER_DIGEST_NONE_CRC32C = 1
ISCSI_HEADER_DIGEST_CRC32C_NONE = 2
ISCSI_HEADER_DIGEST_CRC32C = 3

_ALLOWED = None


class URL(object):
    def __init__(self, ctx, url):
        if not isinstance(ctx, Context):
            raise TypeError("URL needs a Context")
        if not url.startswith("iscsi://"):
            raise ValueError("bad url " + url)
        rest = url[len("iscsi://"):]
        parts = rest.split("/")
        if len(parts) != 3 or not parts[2].isdigit():
            raise ValueError("bad url " + url)
        self.portal, self.target, self.lun = parts[0], parts[1], int(parts[2])
        self.url = url
        registry.iscsi_events.append(("url", url))


class Task(object):
    def __init__(self, cdb, dir, xferlen):
        self.cdb = bytes(cdb)
        self.dir = dir
        self.xferlen = xferlen
        self.status = None
        self.raw_sense = None


class Context(object):
    def __init__(self, initiator_name):
        self.initiator_name = initiator_name
        self.targetname = None
        self.connected = None
        self.disconnects = 0
        registry.iscsi_events.append(("context", initiator_name))
        registry.contexts.append(self)

    def set_targetname(self, t):
        self.targetname = t

    def set_session_type(self, t):
        self.session_type = t

    def set_header_digest(self, d):
        self.header_digest = d

    def connect(self, portal, lun):
        self.connected = (portal, lun)
        registry.iscsi_events.append(("connect", portal, self.targetname, lun))

    def disconnect(self):
        self.disconnects += 1
        registry.iscsi_events.append(("disconnect", self.targetname))
        # libiscsi's iscsi_disconnect() hands back a result code (0, or -1 when the connection is already gone)
        return getattr(registry, "disconnect_result", None)

    def command(self, lun, task, dataout, datain):
        if self.connected is None:
            raise RuntimeError("not connected")
        len(dataout)
        len(datain)
        registry.iscsi_tasks.append({"dir": task.dir, "xferlen": task.xferlen, "cdb": task.cdb,
                                     "dataout_len": len(dataout), "datain_len": len(datain)})
        tgt = registry.by_url.get((self.connected[0], self.targetname, lun))
        if tgt is None:
            raise RuntimeError("no target at %r" % ((self.connected[0], self.targetname, lun),))
        status, sense = tgt.command(task.cdb, dataout, datain, "iscsi")
        if status == "HOSTERR":
            status = 0x0F000001          # libiscsi: SCSI_STATUS_ERROR (no status came back from the target)
        task.status = status
        if datain is not None and len(datain) and tgt.log and "transferred" in tgt.log[-1]:
            task.residual = len(datain) - tgt.log[-1]["transferred"]
        task.raw_sense = sense            # None when the target supplied no sense data
