"""Stand-in for the cython-sgio binding (module name 'sgio').

execute(file, cdb, data_out, data_in, max_sense_data_length=32, return_sense_buffer=False)
  GOOD -> returns the residual count (data-in bytes the device did not fill); CHECK CONDITION -> raises CheckConditionError carrying .sense;
  any other status -> UnspecifiedError.   The target is found through the inode of the open file.
"""
import os

from vf.sim import registry


class CheckConditionError(Exception):
    def __init__(self, sense):
        Exception.__init__(self, "CHECK CONDITION")
        self.sense = sense


class UnspecifiedError(Exception):
    """the command ended without sense data; like newer bindings the error carries what the driver reported: the status byte and the
    host / driver status (a transport-level failure - time-out, no connect - has status 0 and a non-zero host status)"""

    def __init__(self, text, status=None, host_status=0, driver_status=0):
        Exception.__init__(self, text)
        self.status = status
        self.host_status = host_status
        self.driver_status = driver_status


def execute(file, cdb, data_out, data_in, max_sense_data_length=32, return_sense_buffer=False):
    fd = file.fileno()                       # ValueError on a closed file object, as the real binding
    st = os.fstat(fd)                        # OSError(EBADF) on a dead descriptor
    bytes(cdb)                               # must be bytes-like
    if data_out is not None:
        len(data_out)
    if data_in is not None:
        len(data_in)
    rec = {"ino": st.st_ino, "fd": fd, "mode": file.mode, "name": file.name}
    registry.sgio_calls.append(rec)
    if data_out is not None and len(data_out) and "+" not in file.mode and "w" not in file.mode and not getattr(registry, "privileged", False):
        # the kernel refuses write-class commands of an unprivileged user through a descriptor opened read-only (sg: blk_verify_command
        # -> EPERM; with CAP_SYS_RAWIO - registry.privileged - everything passes)
        raise OSError(1, "Operation not permitted")
    for hook in registry.sgio_hooks:
        hook(file, st, cdb, data_out, data_in)
    tgt = registry.by_inode.get(st.st_ino)
    if tgt is None:
        raise UnspecifiedError("no target behind inode %d" % st.st_ino)
    status, sense = tgt.command(cdb, data_out, data_in, "sgio")
    if status == "HOSTERR":
        # the command never completed on the transport (DID_TIME_OUT): no status from the target, no sense
        raise UnspecifiedError("host_status 0x03 (DID_TIME_OUT)", status=0, host_status=3)
    if status == 0x00:
        # the residual count of the transfer (SG_IO's resid): what the device did not fill of the data-in buffer
        resid = 0
        if data_in is not None and len(data_in) and tgt.log and "transferred" in tgt.log[-1]:
            resid = len(data_in) - tgt.log[-1]["transferred"]
        return (resid, b"") if return_sense_buffer else resid
    if status == 0x02:
        raise CheckConditionError(bytes(sense) if sense is not None else b"")
    raise UnspecifiedError("status %#04x" % status, status=status)
