"""Install / remove the stand-in bindings in sys.modules *before* pyscsi's device modules are imported."""
import importlib
import sys


def install(sgio=True, iscsi=True):
    """sgio / iscsi: True -> stand-in present; False -> import raises ImportError"""
    for m in [m for m in sys.modules if m == "pyscsi" or m.startswith("pyscsi.")]:
        del sys.modules[m]
    if sgio:
        sys.modules["sgio"] = importlib.import_module("vf.sim.sgio")
    else:
        sys.modules["sgio"] = None
    if iscsi:
        sys.modules["iscsi"] = importlib.import_module("vf.sim.iscsi")
    else:
        sys.modules["iscsi"] = None


_installed = False


def ensure():
    """idempotent: both stand-ins present, pyscsi (re)imported against them once per process"""
    global _installed
    if not _installed:
        install(True, True)
        _installed = True
