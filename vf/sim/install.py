"""Install / remove the stand-in bindings in sys.modules *before* pyscsi's device modules are imported."""
import importlib
import sys


class _Unloadable(object):
    """a binding that is installed but cannot be loaded (its shared library is missing): import raises a plain ImportError"""

    def __init__(self, name, lib):
        self.name, self.lib = name, lib

    def find_spec(self, fullname, path=None, target=None):
        if fullname == self.name:
            raise ImportError("%s: cannot open shared object file: No such file or directory" % self.lib, name=fullname)
        return None


def install(sgio=True, iscsi=True):
    """sgio / iscsi: True/1 -> stand-in present; False/0 -> not installed (ModuleNotFoundError); 2 -> installed but unloadable (ImportError)"""
    for m in [m for m in sys.modules if m == "pyscsi" or m.startswith("pyscsi.")]:
        del sys.modules[m]
    sys.meta_path[:] = [f for f in sys.meta_path if not isinstance(f, _Unloadable)]
    for name, mode, lib in (("sgio", sgio, "libsgutils2.so.2"), ("iscsi", iscsi, "libiscsi.so.9")):
        if mode == 2:
            sys.modules.pop(name, None)
            sys.meta_path.insert(0, _Unloadable(name, lib))
        elif mode:
            sys.modules[name] = importlib.import_module("vf.sim." + name)
        else:
            sys.modules[name] = None


_installed = False


def ensure():
    """idempotent: both stand-ins present, pyscsi (re)imported against them once per process"""
    global _installed
    if not _installed:
        install(True, True)
        _installed = True
