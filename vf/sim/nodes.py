"""Device nodes for SCSIDevice: real files under /dev/shm/pyscsi-verif-<pid>/ (the path must start with /dev/)."""
import atexit
import os
import shutil

from vf.sim import registry

_root = None
_counter = 0
KEEP = set()          # keep-alive descriptors owned by the harness (not the library's)


def root():
    global _root
    if _root is None or not os.path.isdir(_root):
        for base in ("/dev/shm", "/dev"):
            cand = os.path.join(base, "pyscsi-verif-%d" % os.getpid())
            try:
                os.makedirs(cand, exist_ok=True)
                _root = cand
                break
            except OSError:
                continue
        else:
            raise RuntimeError("no writable directory under /dev/")
        atexit.register(cleanup)
    return _root


def cleanup():
    global _root
    if _root and os.path.isdir(_root) and os.path.basename(_root) == "pyscsi-verif-%d" % os.getpid():
        shutil.rmtree(_root, ignore_errors=True)
    _root = None


class Node(object):
    """a device path with generations; each generation is a distinct inode bound to a target"""

    def __init__(self, target_factory, name=None):
        global _counter
        _counter += 1
        self.path = os.path.join(root(), name or "node%d" % _counter)
        self.target_factory = target_factory
        self.generation = 0
        self.targets = {}          # generation -> Target
        self.inodes = {}           # generation -> ino
        self._keep = []            # keep old inodes alive so numbers are not recycled
        self.present = False
        self.plug()

    def plug(self):
        """(re)create the node: new inode, new generation"""
        self.generation += 1
        tmp = self.path + ".new%d" % self.generation
        fd = os.open(tmp, os.O_CREAT | os.O_RDWR | os.O_EXCL, 0o600)
        self._keep.append(fd)
        KEEP.add(fd)
        ino = os.fstat(fd).st_ino
        os.rename(tmp, self.path)
        tgt = self.target_factory(self.generation)
        self.targets[self.generation] = tgt
        self.inodes[self.generation] = ino
        registry.by_inode[ino] = tgt
        self.present = True
        return tgt

    def unplug(self):
        if self.present:
            os.unlink(self.path)
            self.present = False

    def current_ino(self):
        return self.inodes[self.generation] if self.present else None

    def generation_of(self, ino):
        for g, i in self.inodes.items():
            if i == ino:
                return g
        return None

    def destroy(self):
        for fd in self._keep:
            try:
                os.close(fd)
            except OSError:
                pass
            KEEP.discard(fd)
        self._keep = []
        try:
            os.unlink(self.path)
        except OSError:
            pass
        for ino in self.inodes.values():
            registry.by_inode.pop(ino, None)


def open_fds_under_root():
    """descriptors of this process that point into the scratch directory, excluding the keep-alive ones"""
    out = []
    r = root()
    for name in os.listdir("/proc/self/fd"):
        try:
            tgt = os.readlink("/proc/self/fd/" + name)
        except OSError:
            continue
        if tgt.startswith(r) and int(name) not in KEEP:
            out.append((int(name), tgt))
    return out
