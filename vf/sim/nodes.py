"""Device nodes for SCSIDevice: real files under /dev/shm/pyscsi-verif-<pid>/ (the path must start with /dev/)."""
import atexit
import os
import shutil
import stat

from vf.sim import registry

_root = None
_counter = 0


def root():
    """per-process scratch directory; under $VF_SCRATCH (created and removed by the runner) when set"""
    global _root
    if _root is None or not os.path.isdir(_root):
        base = os.environ.get("VF_SCRATCH")
        # (the name carries a time stamp besides the pid: worker processes end without running exit handlers, and a later worker of
        # the same run may be given the pid of an earlier one)
        import time
        tag = "%d-%x" % (os.getpid(), time.time_ns() & 0xFFFFFFFFFF)
        cands = [os.path.join(base, "w" + tag)] if base else []
        cands += [os.path.join(b, "pyscsi-verif-" + tag) for b in ("/dev/shm", "/dev")]
        for cand in cands:
            try:
                os.makedirs(cand, exist_ok=False)
                _root = cand
                break
            except OSError:
                continue
        else:
            raise RuntimeError("no writable directory under /dev/")
        atexit.register(cleanup)
    return _root


def cleanup():
    global _root
    if _root and os.path.isdir(_root):
        shutil.rmtree(_root, ignore_errors=True)
    _root = None


_chr_ok = None


def chr_supported():
    """can this process create and open character special files in the scratch directory? (needs CAP_MKNOD and no nodev mount)"""
    global _chr_ok
    if _chr_ok is None:
        p = os.path.join(root(), "chrprobe%d" % os.getpid())
        try:
            os.mknod(p, stat.S_IFCHR | 0o600, os.makedev(1, 3))
            with open(p, "rb+"):
                pass
            _chr_ok = True
        except OSError:
            _chr_ok = False
        finally:
            try:
                os.unlink(p)
            except OSError:
                pass
    return _chr_ok


class Node(object):
    """a device path with generations; each generation is a distinct inode bound to a target.

    Old inodes are kept alive by a hard link (path.keepN), never by a descriptor, so the harness holds no
    file descriptors and descriptor numbers are only ever taken by the library.
    """

    def __init__(self, target_factory, name=None, symlink=False, chr=False, vanish="unlink"):
        global _counter
        _counter += 1
        # vanish: how unplug() makes the node disappear - "unlink" (ENOENT), "eloop" (the name becomes a symbolic link to itself: stat
        # fails with ELOOP), "enotdir" (the directory holding the node is replaced by a plain file: ENOTDIR)
        self.vanish = vanish
        self.dirpath = None
        if vanish == "enotdir":
            self.dirpath = os.path.join(root(), "bus%d" % _counter)
            os.makedirs(self.dirpath, exist_ok=True)
            self.path = os.path.join(self.dirpath, name or "node")
        else:
            self.path = os.path.join(root(), name or "node%d" % _counter)
        # with symlink=True the device path is a symbolic link (like /dev/disk/by-id/...) to the node that gets replaced
        self.real = self.path + ".real" if symlink else self.path
        # symlink="repoint": every generation is a file of its OWN name (sda, sdb, ...) that stays in place; the link is re-pointed
        self.repoint = symlink == "repoint"
        if symlink and not self.repoint:
            os.symlink(self.real, self.path)
        # with chr=True every generation is a character special file for the SAME device number (1:3), as a re-plugged /dev/sgN is
        self.chr = chr
        self.keepbase = os.path.join(root(), "keep%d" % _counter)      # hard links that keep every generation's inode alive
        self.target_factory = target_factory
        self.generation = 0
        self.targets = {}          # generation -> Target
        self.inodes = {}           # generation -> ino
        self.present = False
        self.dev = None
        self.plug()

    def plug(self):
        """(re)create the node: new inode, new generation"""
        if self.dirpath is not None and not os.path.isdir(self.dirpath):
            os.unlink(self.dirpath)
            os.rename(self.dirpath + ".gone", self.dirpath)
            try:
                os.unlink(self.real)
            except OSError:
                pass
        self.generation += 1
        tmp = self.path + ".new%d" % self.generation
        if self.chr:
            os.mknod(tmp, stat.S_IFCHR | 0o600, os.makedev(1, 3))
            st = os.stat(tmp)
        else:
            fd = os.open(tmp, os.O_CREAT | os.O_RDWR | os.O_EXCL, 0o600)
            st = os.fstat(fd)
            os.close(fd)
        os.link(tmp, self.keep_path(self.generation))
        if self.repoint:
            self.real = self.path + ".sd%d" % self.generation
            os.rename(tmp, self.real)
            lnk = self.path + ".lnk"
            os.symlink(self.real, lnk)
            os.replace(lnk, self.path)          # (atomic re-point, as udev does)
        else:
            os.rename(tmp, self.real)
        tgt = self.target_factory(self.generation)
        self.targets[self.generation] = tgt
        self.inodes[self.generation] = st.st_ino
        self.dev = st.st_dev
        registry.by_inode[st.st_ino] = tgt
        self.present = True
        return tgt

    def repoint_to(self, generation):
        """(links that are re-pointed only) point the link back at an earlier generation's node, which is still in place"""
        target = self.path + ".sd%d" % generation
        lnk = self.path + ".lnk"
        os.symlink(target, lnk)
        os.replace(lnk, self.path)
        self.real = target
        self.generation_now = generation

    def keep_path(self, generation):
        return "%s.%d" % (self.keepbase, generation)

    def unplug(self):
        if self.present:
            if self.vanish == "eloop":
                tmp = self.real + ".loop"
                os.symlink(self.real, tmp)
                os.replace(tmp, self.real)
            elif self.vanish == "enotdir":
                os.rename(self.dirpath, self.dirpath + ".gone")
                open(self.dirpath, "w").close()
            else:
                os.unlink(self.real)
            self.present = False

    def current_ino(self):
        return self.inodes[self.generation] if self.present else None

    def generation_of(self, ino):
        for g, i in self.inodes.items():
            if i == ino:
                return g
        return None

    def open_handles(self):
        """[(fd, generation)] descriptors of this process that refer to one of this node's inodes"""
        out = []
        for name in os.listdir("/proc/self/fd"):
            try:
                st = os.fstat(int(name))
            except OSError:
                continue
            if st.st_dev == self.dev:
                g = self.generation_of(st.st_ino)
                if g is not None:
                    out.append((int(name), g))
        return sorted(out)

    def destroy(self):
        for g in list(self.inodes):
            try:
                os.unlink(self.keep_path(g))
            except OSError:
                pass
        for p in {self.path, self.real} | {self.path + ".sd%d" % g for g in self.inodes}:
            try:
                os.unlink(p)
            except OSError:
                pass
        for ino in self.inodes.values():
            registry.by_inode.pop(ino, None)
        if self.dirpath is not None:
            for d in (self.dirpath, self.dirpath + ".gone"):
                try:
                    if os.path.isdir(d):
                        shutil.rmtree(d, ignore_errors=True)
                    else:
                        os.unlink(d)
                except OSError:
                    pass
