"""The 38 facade methods: which command class each builds, which command sets offer it, example arguments.

Used by C07 (status handling through every facade method), C13 (exactly-once / decode-after) and C17.
`sets` are decided by the oracle's own name table (vf.spec.cdb tables), mapped to the identifier the facade looks up.
"""
from vf import cmdspace as CS

SET_TO_TYPE = {"sbc": 0x00, "ssc": 0x01, "spc": 0x03, "mmc": 0x05, "smc": 0x08}

ATA_ARGS = dict(protocal=4, t_length=2, byte_block=1, t_dir=1, t_type=0, off_line=0, fetures=0, count=1, lba=0, command=0xEC)

# method -> (spec class, lookup key or "9E"/"A3" for get_opcode, positional args, needs blocksize)
FACADE = {
    "exchangemedium": ("ExchangeMedium", "EXCHANGE_MEDIUM", dict(xfer=1, source=2, dest1=3, dest2=4)),
    "getlbastatus": ("GetLBAStatus", "9E", dict(lba=5)),
    "inquiry": ("Inquiry", "INQUIRY", dict()),
    "initializeelementstatus": ("InitializeElementStatus", "INITIALIZE_ELEMENT_STATUS", dict()),
    "initializeelementstatuswithrange": ("InitializeElementStatusWithRange", "INITIALIZE_ELEMENT_STATUS_WITH_RANGE", dict(xfer=1, elements=2)),
    "modeselect6": ("ModeSelect6", "MODE_SELECT_6", dict(data=CS.MODEDATA)),
    "modesense6": ("ModeSense6", "MODE_SENSE_6", dict(page_code=0x0A)),
    "modesense10": ("ModeSense10", "MODE_SENSE_10", dict(page_code=0x0A)),
    "modeselect10": ("ModeSelect10", "MODE_SELECT_10", dict(data=CS.MODEDATA)),
    "opencloseimportexportelement": ("OpenCloseImportExportElement", "OPEN_CLOSE_IMPORT_EXPORT_ELEMENT", dict(xfer=1, acode=1)),
    "positiontoelement": ("PositionToElement", "POSITION_TO_ELEMENT", dict(xfer=1, dest=2)),
    "preventallowmediumremoval": ("PreventAllowMediumRemoval", "PREVENT_ALLOW_MEDIUM_REMOVAL", dict()),
    "read10": ("Read10", "READ_10", dict(lba=1, tl=1)),
    "read12": ("Read12", "READ_12", dict(lba=1, tl=1)),
    "read16": ("Read16", "READ_16", dict(lba=1, tl=1)),
    "readcapacity10": ("ReadCapacity10", "READ_CAPACITY_10", dict()),
    "readcapacity16": ("ReadCapacity16", "9E", dict()),
    "readcd": ("ReadCd", "READ_CD", dict(lba=0, tl=1)),
    "readdiscinformation": ("ReadDiscInformation", "READ_DISC_INFORMATION", dict(data_type=0)),
    "readelementstatus": ("ReadElementStatus", "READ_ELEMENT_STATUS", dict(start=0, num=2)),
    "movemedium": ("MoveMedium", "MOVE_MEDIUM", dict(xfer=1, source=2, dest=3)),
    "synchronizecache10": ("SynchronizeCache10", "SYNCHRONIZE_CACHE_10", dict(lba=0, numblks=1)),
    "synchronizecache16": ("SynchronizeCache16", "SYNCHRONIZE_CACHE_16", dict(lba=0, numblks=1)),
    "testunitready": ("TestUnitReady", "TEST_UNIT_READY", dict()),
    "write10": ("Write10", "WRITE_10", dict(lba=1, tl=1, data="BLOCK")),
    "write12": ("Write12", "WRITE_12", dict(lba=1, tl=1, data="BLOCK")),
    "write16": ("Write16", "WRITE_16", dict(lba=1, tl=1, data="BLOCK")),
    "writesame16": ("WriteSame16", "WRITE_SAME_16", dict(lba=1, nb=2, data="BLOCK")),
    "writesame10": ("WriteSame10", "WRITE_SAME_10", dict(lba=1, nb=2, data="BLOCK")),
    "reportluns": ("ReportLuns", "REPORT_LUNS", dict()),
    "reportpriority": ("ReportPriority", "A3", dict()),
    "reporttargetportgroups": ("ReportTargetPortGroups", "A3", dict()),
    "atapassthrough12": ("ATAPassThrough12", "ATA_PASS_THROUGH_12", ATA_ARGS),
    "atapassthrough16": ("ATAPassThrough16", "ATA_PASS_THROUGH_16", ATA_ARGS),
    "persistentreservein": ("PersistentReserveIn", "PERSISTENT_RESERVE_IN", dict(service_action=0)),
    "persistentreserveout": ("PersistentReserveOut", "PERSISTENT_RESERVE_OUT", dict(service_action=0, scope=0, pr_type=1)),
    "extendedcopy4": ("ExtendedCopy4", "EXTENDED_COPY", dict()),
    "extendedcopy5": ("ExtendedCopy5", "EXTENDED_COPY", dict()),
}
assert len(FACADE) == 38

# positional order of the facade signatures
ORDER = {
    "exchangemedium": ("xfer", "source", "dest1", "dest2"), "getlbastatus": ("lba",),
    "initializeelementstatuswithrange": ("xfer", "elements"), "modeselect6": ("data",), "modesense6": ("page_code",),
    "modesense10": ("page_code",), "modeselect10": ("data",), "opencloseimportexportelement": ("xfer", "acode"),
    "positiontoelement": ("xfer", "dest"), "read10": ("lba", "tl"), "read12": ("lba", "tl"), "read16": ("lba", "tl"),
    "readcd": ("lba", "tl"), "readdiscinformation": ("data_type",), "readelementstatus": ("start", "num"),
    "movemedium": ("xfer", "source", "dest"), "synchronizecache10": ("lba", "numblks"), "synchronizecache16": ("lba", "numblks"),
    "write10": ("lba", "tl", "data"), "write12": ("lba", "tl", "data"), "write16": ("lba", "tl", "data"),
    "writesame16": ("lba", "nb", "data"), "writesame10": ("lba", "nb", "data"),
    "atapassthrough12": ("protocal", "t_length", "byte_block", "t_dir", "t_type", "off_line", "fetures", "count", "lba", "command"),
    "atapassthrough16": ("protocal", "t_length", "byte_block", "t_dir", "t_type", "off_line", "fetures", "count", "lba", "command"),
    "persistentreservein": ("service_action",), "persistentreserveout": ("service_action", "scope", "pr_type"),
}


def sets_offering(method):
    """command sets (by the oracle's table) in which the facade's lookup finds the command"""
    from vf.spec import cdb as S
    from vf.spec import opcodes as T
    name, key, _ = FACADE[method]
    out = []
    for st in ("spc", "sbc", "ssc", "smc", "mmc"):
        if key in ("9E", "A3"):
            gen = "%s_OPCODE_%s" % (st.upper(), key)
            if (st, gen) in S.CLASSES[name]["tables"]:
                out.append(st)
        else:
            if (st, key) in S.CLASSES[name]["tables"]:
                out.append(st)
    return out


def call(scsi, method, blocksize=512, **over):
    """invoke scsi.<method> with the example arguments (overridable)"""
    name, key, args = FACADE[method]
    a = dict(args)
    a.update(over)
    for k, v in list(a.items()):
        if isinstance(v, str) and v == "BLOCK":
            a[k] = bytearray(b"\xa5" * blocksize * a.get("tl", 1))
    pos = [a.pop(k) for k in ORDER.get(method, ())]
    return getattr(scsi, method)(*pos, **a)
