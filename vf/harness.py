"""Closing the system: devices of both transports bound to simulated targets."""
import itertools

from vf.sim import install, nodes, registry
from vf.sim.target import Target

_n = itertools.count(1)


class Rig(object):
    """one device (SG_IO over a real file node, or iSCSI over the stand-in context) + its target"""

    def __init__(self, transport, device_type=0x00, qualifier=0, readwrite=True, detect_replugged=True, blocksize=512,
                 target=None, lun=0, **tkw):
        install.ensure()
        self.transport = transport
        self.node = None
        mk = (lambda g=None: target) if target is not None else (
            lambda g=None: Target(device_type=device_type, qualifier=qualifier, blocksize=blocksize, **tkw))
        if transport == "sgio":
            from pyscsi.pyscsi.scsi_device import SCSIDevice
            self.node = nodes.Node(mk)
            self.target = self.node.targets[1]
            self.dev = SCSIDevice(self.node.path, readwrite, detect_replugged)
        elif transport == "iscsi":
            from pyscsi.pyiscsi.iscsi_device import ISCSIDevice
            self.target = mk()
            name = "iqn.2000-01.verif:t%d" % next(_n)
            registry.by_url[("portal:3260", name, lun)] = self.target
            self.key = ("portal:3260", name, lun)
            self.dev = ISCSIDevice("iscsi://portal:3260/%s/%d" % (name, lun), "iqn.2000-01.verif:initiator")
        else:
            raise ValueError(transport)

    def facade(self, blocksize=512):
        from pyscsi.pyscsi.scsi import SCSI
        return SCSI(self.dev, blocksize)

    def close(self):
        try:
            self.dev.close()
        except Exception:
            pass
        if self.node is not None:
            self.node.destroy()
        else:
            registry.by_url.pop(self.key, None)


def opcode_set(name):
    import pyscsi.pyscsi.scsi_enum_command as E
    return getattr(E, name)


def override_probe(cls, helper, transform=None):
    """a class derived from a library class that overrides one helper classmethod (delegating to the inherited one, counting the calls,
    optionally transforming the result): the public entry points of the derived class must go through the override wherever the base
    class goes through its own helper.  (`super` cannot be named in classes built by the library's metaclass: the inherited function is
    called through __func__.)"""
    base = getattr(cls, helper).__func__
    calls = [0]

    def wrapper(klass, *a, **k):
        calls[0] += 1
        r = base(klass, *a, **k)
        return transform(r) if transform is not None else r
    derived = type(cls)("Derived" + cls.__name__, (cls,), {helper: classmethod(wrapper)})
    return derived, calls
