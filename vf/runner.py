"""Common runner: argument parsing, worker pool, evidence, known findings, replay files.

A property module (vf/props/cNN.py) exports

    ID, LEVEL, RULE, ASSUMPTIONS, TECHNIQUE
    partitions(tier)                -> list of JSON-able partition descriptors
    run_partition(part, tier, seed) -> Acc  (executed in a worker process; the repo is importable)
    replay(case)                    -> list of (key, what) violations for that one case

Exit status: 0 held, 1 violation (VIOLATION line printed), 2 machinery error.
"""
import argparse
import hashlib
import importlib
import json
import multiprocessing as mp
import os
import shutil
import sys
import time
import traceback

ROOT = os.path.dirname(os.path.dirname(os.path.abspath(__file__)))
MAX_SAMPLES = 6
MAX_VIOL_PER_KEY = 3


def jhash(obj):
    return hash(json.dumps(obj, sort_keys=True, default=_jd))


def _jd(o):
    if isinstance(o, (bytes, bytearray)):
        return "hex:" + bytes(o).hex()
    if isinstance(o, (set, frozenset)):
        return sorted(o)
    if isinstance(o, tuple):
        return list(o)
    return repr(o)


def jdump(obj, **kw):
    return json.dumps(obj, default=_jd, **kw)


class Acc:
    """Accumulator for one partition (kept picklable: plain containers only)."""

    def __init__(self, seed=0):
        self.seed = seed
        self.evaluations = 0
        self.nontrivial = set()
        self.outcomes = set()
        self.samples = []          # list of (rank, case)
        self.viol = {}             # key -> [count, what, [cases]]
        self.states = 0
        self.stateset = set()      # hashes of canonical states (union on merge)
        self.transitions = 0
        self.traces = 0
        self.extra = {}            # name -> int (summed on merge) or list
        self.caps = []

    # -- counting -----------------------------------------------------------------
    def case(self, case, nontrivial=True, key=None):
        """register one explored case; `key` is a cheap hashable identifying it"""
        self.evaluations += 1
        h = hash(key) if key is not None else jhash(case)
        if nontrivial:
            self.nontrivial.add(h)
        rank = hash((self.seed, h)) & 0xFFFFFFFF
        if len(self.samples) < MAX_SAMPLES:
            self.samples.append((rank, _lazy(case)))
            self.samples.sort(key=lambda x: x[0])
        elif rank < self.samples[-1][0]:
            self.samples[-1] = (rank, _lazy(case))
            self.samples.sort(key=lambda x: x[0])

    def outcome(self, o):
        self.outcomes.add(hash(o))

    def violation(self, key, what, case):
        v = self.viol.setdefault(key, [0, what, []])
        v[0] += 1
        if len(v[2]) < MAX_VIOL_PER_KEY:
            v[2].append(json.loads(jdump(case)))

    def add(self, name, n=1):
        self.extra[name] = self.extra.get(name, 0) + n

    def merge(self, other):
        self.evaluations += other.evaluations
        self.nontrivial |= other.nontrivial
        self.outcomes |= other.outcomes
        self.samples = sorted(self.samples + other.samples, key=lambda x: x[0])[:MAX_SAMPLES]
        for k, (c, w, cs) in other.viol.items():
            v = self.viol.setdefault(k, [0, w, []])
            v[0] += c
            v[2] = (v[2] + cs)[:MAX_VIOL_PER_KEY]
        self.states += other.states
        self.stateset |= other.stateset
        self.transitions += other.transitions
        self.traces += other.traces
        for k, n in other.extra.items():
            if isinstance(n, list):
                self.extra[k] = self.extra.get(k, []) + n
            else:
                self.extra[k] = self.extra.get(k, 0) + n
        self.caps += other.caps

    def finish(self):
        """make picklable/light before returning from a worker"""
        self.samples = [(r, json.loads(jdump(c() if callable(c) else c))) for r, c in self.samples]
        return self


def _lazy(case):
    return case


# ---------------------------------------------------------------------------------
def setup_repo(repo):
    repo = os.path.abspath(repo)
    for m in [m for m in sys.modules if m == "pyscsi" or m.startswith("pyscsi.")]:
        del sys.modules[m]
    if repo in sys.path:
        sys.path.remove(repo)
    sys.path.insert(0, repo)
    os.environ["VF_REPO"] = repo


def _worker(args):
    modname, part, tier, seed = args
    try:
        mod = importlib.import_module(modname)
        acc = mod.run_partition(part, tier, seed)
        return ("ok", acc.finish())
    except BaseException:
        return ("err", "partition %r: %s" % (part, traceback.format_exc()))


def load_known():
    p = os.path.join(ROOT, "known_findings.json")
    if not os.path.exists(p):
        return {}
    data = json.load(open(p))
    return {(f["property"], f["key"]): f for f in data.get("findings", [])}


def main(argv=None):
    ap = argparse.ArgumentParser()
    ap.add_argument("prop")
    ap.add_argument("--tier", default=os.environ.get("VERIF_TIER", "quick"), choices=["quick", "thorough"])
    ap.add_argument("--replay")
    ap.add_argument("--repo", default=os.environ.get("VF_REPO_DIR", "/repo"))
    ap.add_argument("--jobs", type=int, default=int(os.environ.get("VF_JOBS", "0")) or (os.cpu_count() or 4))
    ap.add_argument("--no-evidence", action="store_true")
    a = ap.parse_args(argv)
    pid = a.prop.upper()
    seed = int(os.environ.get("VERIF_SEED", "0") or 0)
    setup_repo(a.repo)
    modname = "vf.props." + pid.lower()
    try:
        mod = importlib.import_module(modname)
    except Exception:
        traceback.print_exc()
        print("MACHINERY-ERROR property=%s cannot import check" % pid)
        return 2

    if a.replay:
        rec = json.load(open(a.replay))
        case = rec["case"]
        try:
            viols = mod.replay(case)
        except Exception:
            traceback.print_exc()
            return 2
        if viols:
            for key, what in viols:
                print("replayed: key=%s %s" % (key, what))
            print("VIOLATION property=%s replay=%s" % (pid, a.replay))
            return 1
        print("replay: property=%s case no longer fails" % pid)
        return 0

    t0 = time.time()
    scratch = make_scratch()
    try:
        return _run(a, mod, modname, pid, seed, t0)
    finally:
        shutil.rmtree(scratch, ignore_errors=True)


def make_scratch():
    """scratch directory for device nodes: /dev/shm/pyscsi-verif-<pid> (path must start with /dev/); stale ones of dead runs are removed"""
    for base in ("/dev/shm", "/dev"):
        try:
            for n in os.listdir(base):
                if n.startswith("pyscsi-verif-"):
                    p = n.split("-")[-1]
                    if p.isdigit() and not os.path.exists("/proc/" + p):
                        shutil.rmtree(os.path.join(base, n), ignore_errors=True)
            d = os.path.join(base, "pyscsi-verif-%d" % os.getpid())
            os.makedirs(d, exist_ok=True)
            os.environ["VF_SCRATCH"] = d
            return d
        except OSError:
            continue
    os.environ.pop("VF_SCRATCH", None)
    return "/nonexistent-vf-scratch"


def _run(a, mod, modname, pid, seed, t0):
    parts = mod.partitions(a.tier)
    total = Acc(seed)
    errors = []
    jobs = [(modname, p, a.tier, seed) for p in parts]
    if getattr(mod, "SERIAL", False) or a.jobs <= 1 or len(jobs) <= 1:
        results = map(_worker, jobs)
        pool = None
    else:
        ctx = mp.get_context("fork")
        pool = ctx.Pool(min(a.jobs, len(jobs)), maxtasksperchild=getattr(mod, "MAXTASKS", None))
        results = pool.imap_unordered(_worker, jobs, chunksize=1)
    for st, val in results:
        if st == "ok":
            total.merge(val)
        else:
            errors.append(val)
    if pool:
        pool.close()
        pool.join()
    wall = time.time() - t0
    if errors:
        for e in errors[:5]:
            print(e, file=sys.stderr)
        print("MACHINERY-ERROR property=%s %d partition(s) crashed" % (pid, len(errors)))
        return 2

    known = load_known()
    new = []
    n_viol = 0
    for key, (count, what, cases) in sorted(total.viol.items()):
        n_viol += count
        if (pid, key) in known:
            print("KNOWN-FINDING: property=%s %s [%s] (%d case(s) this run)" % (pid, known[(pid, key)]["what"], key, count))
        else:
            new.append((key, count, what, cases))
    os.makedirs(os.path.join(ROOT, "replays"), exist_ok=True)
    for key, count, what, cases in new:
        rec = {"property": pid, "key": key, "what": what, "count": count, "case": cases[0], "more_cases": cases[1:]}
        dig = hashlib.sha1(jdump([pid, key]).encode()).hexdigest()[:12]
        path = os.path.join(ROOT, "replays", "%s-%s.json" % (pid, dig))
        with open(path, "w") as f:
            f.write(jdump(rec, indent=1))
        print("  key=%s cases=%d: %s" % (key, count, what))
        print("VIOLATION property=%s replay=%s" % (pid, path))

    cov = {
        "evaluations": total.evaluations,
        "distinct_nontrivial": len(total.nontrivial),
        "distinct_outcomes": len(total.outcomes),
        "rule": mod.RULE,
        "samples": [c for _, c in total.samples] or ["(none)"],
        "partitions": len(parts),
        "exhaustive": not total.caps,
        "caps_hit": total.caps,
    }
    if mod.LEVEL == "model_checking":
        cov["states"] = total.states + len(total.stateset)
        cov["transitions"] = total.transitions
        cov["traces_validated_against_impl"] = total.traces
    cov.update({k: v for k, v in total.extra.items()})
    if hasattr(mod, "bounds"):
        cov["bounds"] = mod.bounds(a.tier)
    ev = {
        "property_id": pid,
        "tier": a.tier,
        "seed": seed,
        "level": mod.LEVEL,
        "coverage": cov,
        "assumptions": list(mod.ASSUMPTIONS),
        "wall_s": round(wall, 2),
        "violations": len(new),
        "known_findings_seen": sorted(k for k in total.viol if (pid, k) in known),
        "technique": getattr(mod, "TECHNIQUE", ""),
        "repo": os.environ.get("VF_REPO"),
    }
    if not a.no_evidence:
        os.makedirs(os.path.join(ROOT, "evidence"), exist_ok=True)
        with open(os.path.join(ROOT, "evidence", pid + ".json"), "w") as f:
            f.write(jdump(ev, indent=1))
    print("%s tier=%s evaluations=%d distinct_nontrivial=%d outcomes=%d states=%d transitions=%d violations=%d known=%d wall=%.1fs"
          % (pid, a.tier, total.evaluations, len(total.nontrivial), len(total.outcomes), total.states + len(total.stateset),
             total.transitions, len(new), len(ev["known_findings_seen"]), wall))
    return 1 if new else 0
