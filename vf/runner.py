"""Common runner: argument parsing, worker pool, evidence, known findings, replay files.

A property module (vf/props/cNN.py) exports

    ID, LEVEL, RULE, ASSUMPTIONS, TECHNIQUE
    partitions(tier)                -> list of JSON-able partition descriptors
    run_partition(part, tier, seed) -> Acc  (executed in a worker process; the repo is importable)
    replay(case)                    -> list of (key, what) violations for that one case

Exit status: 0 held, 1 violation (VIOLATION line printed), 2 machinery error.
"""
import argparse
import hashlib
import importlib
import json
import multiprocessing as mp
import os
import shutil
import sys
import time
import traceback

ROOT = os.path.dirname(os.path.dirname(os.path.abspath(__file__)))
MAX_SAMPLES = 6
MAX_VIOL_PER_KEY = 3


def jhash(obj):
    return hash(json.dumps(obj, sort_keys=True, default=_jd))


def _jd(o):
    if isinstance(o, (bytes, bytearray)):
        return "hex:" + bytes(o).hex()
    if isinstance(o, (set, frozenset)):
        return sorted(o)
    if isinstance(o, tuple):
        return list(o)
    return repr(o)


def jdump(obj, **kw):
    return json.dumps(obj, default=_jd, **kw)


class Acc:
    """Accumulator for one partition (kept picklable: plain containers only)."""

    def __init__(self, seed=0):
        self.seed = seed
        self.evaluations = 0
        self.nontrivial = set()
        self.outcomes = set()
        self.samples = []          # list of (rank, case)
        self.viol = {}             # key -> [count, what, [cases]]
        self.states = 0
        self.stateset = set()      # hashes of canonical states (union on merge)
        self.transitions = 0
        self.traces = 0
        self.extra = {}            # name -> int (summed on merge) or list
        self.caps = []

    # -- counting -----------------------------------------------------------------
    def case(self, case, nontrivial=True, key=None):
        """register one explored case; `key` is a cheap hashable identifying it"""
        self.evaluations += 1
        h = hash(key) if key is not None else jhash(case)
        if nontrivial:
            self.nontrivial.add(h)
        rank = hash((self.seed, h)) & 0xFFFFFFFF
        if len(self.samples) < MAX_SAMPLES:
            self.samples.append((rank, _lazy(case)))
            self.samples.sort(key=lambda x: x[0])
        elif rank < self.samples[-1][0]:
            self.samples[-1] = (rank, _lazy(case))
            self.samples.sort(key=lambda x: x[0])

    def outcome(self, o):
        self.outcomes.add(hash(o))

    def violation(self, key, what, case):
        v = self.viol.setdefault(key, [0, what, []])
        v[0] += 1
        if len(v[2]) < MAX_VIOL_PER_KEY:
            v[2].append(json.loads(jdump(case)))

    def add(self, name, n=1):
        self.extra[name] = self.extra.get(name, 0) + n

    def merge(self, other):
        self.evaluations += other.evaluations
        self.nontrivial |= other.nontrivial
        self.outcomes |= other.outcomes
        self.samples = sorted(self.samples + other.samples, key=lambda x: x[0])[:MAX_SAMPLES]
        for k, (c, w, cs) in other.viol.items():
            v = self.viol.setdefault(k, [0, w, []])
            v[0] += c
            v[2] = (v[2] + cs)[:MAX_VIOL_PER_KEY]
        self.states += other.states
        self.stateset |= other.stateset
        self.transitions += other.transitions
        self.traces += other.traces
        for k, n in other.extra.items():
            if isinstance(n, list):
                self.extra[k] = self.extra.get(k, []) + n
            else:
                self.extra[k] = self.extra.get(k, 0) + n
        self.caps += other.caps

    def finish(self):
        """make picklable/light before returning from a worker"""
        self.samples = [(r, json.loads(jdump(c() if callable(c) else c))) for r, c in self.samples]
        return self


def _lazy(case):
    return case


# ---------------------------------------------------------------------------------
def setup_repo(repo):
    repo = os.path.abspath(repo)
    for m in [m for m in sys.modules if m == "pyscsi" or m.startswith("pyscsi.")]:
        del sys.modules[m]
    if repo in sys.path:
        sys.path.remove(repo)
    sys.path.insert(0, repo)
    os.environ["VF_REPO"] = repo


def _worker(args):
    modname, part, tier, seed = args
    try:
        mod = importlib.import_module(modname)
        acc = mod.run_partition(part, tier, seed)
        return ("ok", acc.finish())
    except BaseException:
        return ("err", "partition %r: %s" % (part, traceback.format_exc()))


def opt_partitions(mod, tier):
    """partitions that are run a second time in a child interpreter started with `-O -W error` (assert statements and
    `if __debug__:` blocks removed; every warning raised as an exception, as under pytest's filterwarnings=error; root logger at DEBUG;
    another PYTHONHASHSEED than the parent's): a library must behave the same there.  A module may name them (OPT_PARTITIONS(tier)); the default is every partition
    of a module that sets OPT_QUICK_ALL, else every third one (quick) / every second one (thorough)."""
    if getattr(mod, "NO_OPT_PASS", False):
        return []
    if hasattr(mod, "OPT_PARTITIONS"):
        return mod.OPT_PARTITIONS(tier)
    parts = mod.partitions(tier)
    if getattr(mod, "OPT_QUICK_ALL", False):
        return parts
    # every third (quick) / second (thorough) partition of each KIND of partition (first element), so that no kind is left out
    step = 3 if tier == "quick" else 2
    groups = {}
    for p_ in parts:
        k = p_[0] if isinstance(p_, (list, tuple)) and p_ and isinstance(p_[0], str) else "-"
        groups.setdefault(k, []).append(p_)
    # (partitions whose first element is a class / method name form one-element groups: treat all singletons as one group)
    singles = [g[0] for g in groups.values() if len(g) == 1]
    chosen = singles[::step] if len(singles) > step else singles
    for g in groups.values():
        if len(g) > 1:
            chosen += g[::step]
    return chosen


ALT_PY = "/usr/bin/python3.11"


def alt_python():
    """another CPython release than the one the checks run on (the library declares python_requires ~= 3.7): code that feature-detects
    the standard library takes its fallback path there.  None when the image has no such interpreter."""
    if not os.path.exists(ALT_PY):
        return None
    try:
        import subprocess
        v = subprocess.run([ALT_PY, "-c", "import sys; print(sys.version_info[:2])"], capture_output=True, timeout=30).stdout.decode().strip()
    except Exception:
        return None
    return ALT_PY if v and v != str(tuple(sys.version_info[:2])) else None


def alt_partitions(mod, tier):
    """partitions run a third time under the other interpreter: the module's choice (ALT_PARTITIONS(tier)), none (NO_ALT_PASS), or by
    default every partition but the thread-schedule enumerations' share chosen by OPT_PARTITIONS, if the module defines that"""
    if getattr(mod, "NO_ALT_PASS", False) or alt_python() is None:
        return []
    if hasattr(mod, "ALT_PARTITIONS"):
        return mod.ALT_PARTITIONS(tier)
    if hasattr(mod, "OPT_PARTITIONS"):
        return mod.OPT_PARTITIONS(tier)
    if tier == "quick" or getattr(mod, "OPT_QUICK_ALL", False):
        return mod.partitions(tier)
    # thorough tier of the expensive modules: the stratified half that the -OO pass does not take
    taken = {jdump(p) for p in opt_partitions(mod, tier)}
    rest = [p for p in mod.partitions(tier) if jdump(p) not in taken]
    return rest or mod.partitions(tier)


def _alt_worker(args):
    """run one partition under the other interpreter; the result comes back pickled on stdout"""
    import pickle
    import subprocess
    modname, part, tier, seed = args
    env = dict(os.environ)
    env["PYTHONPATH"] = ROOT
    env["PYTHONHASHSEED"] = "0"
    tag = "python-" + os.path.basename(ALT_PY).replace("python", "")
    try:
        p = subprocess.run([ALT_PY, "-W", "error", "-c", "from vf.runner import alt_child; alt_child()", modname, tier, str(seed), os.environ["VF_REPO"]],
                           input=jdump(part).encode(), capture_output=True, env=env, cwd=ROOT, timeout=3600)
        if p.returncode != 0:
            return ("err", "partition %r under %s: exit %d: %s" % (part, ALT_PY, p.returncode, p.stderr.decode()[-800:]))
        st, acc = pickle.loads(p.stdout)
        if st != "ok":
            return (st, acc)
        acc.viol = {tag + "/" + k: [c, "[under %s] " % ALT_PY + w, [["-alt", x] for x in cs]] for k, (c, w, cs) in acc.viol.items()}
        acc.extra = {"other_interpreter_partitions": 1, "other_interpreter_evaluations": acc.evaluations}
        acc.nontrivial = {hash(("-alt", h)) for h in acc.nontrivial}
        acc.samples = []
        return ("ok", acc)
    except BaseException:
        return ("err", "partition %r under %s: %s" % (part, ALT_PY, traceback.format_exc()))


def alt_child():
    import pickle
    modname, tier, seed, repo = sys.argv[1:5]
    part = json.loads(sys.stdin.read())
    setup_repo(repo)
    out = sys.stdout.buffer
    sys.stdout = sys.stderr
    res = _worker((modname, part, tier, int(seed)))
    out.write(pickle.dumps(res, protocol=4))
    out.flush()


def _opt_worker(args):
    """run one partition in `python -O`; the result comes back pickled on stdout"""
    import pickle
    import subprocess
    modname, part, tier, seed = args
    env = dict(os.environ)
    env["PYTHONPATH"] = ROOT
    env["PYTHONHASHSEED"] = "20261003"          # (another string-hash order than the parent's, which runs with seed 0)
    # ... and another process environment: POSIX locale without UTF-8 mode (text defaults to ASCII), another working directory
    env.update({"LC_ALL": "C", "LANG": "C", "PYTHONUTF8": "0", "PYTHONCOERCECLOCALE": "0"})
    try:
        p = subprocess.run([sys.executable, "-OO", "-bb", "-W", "error", "-c", "from vf.runner import opt_child; opt_child()", modname, tier, str(seed), os.environ["VF_REPO"]],
                           input=jdump(part).encode(), capture_output=True, env=env, cwd="/", timeout=3600)
        if p.returncode != 0:
            return ("err", "partition %r under python -O: exit %d: %s" % (part, p.returncode, p.stderr.decode()[-800:]))
        st, acc = pickle.loads(p.stdout)
        if st != "ok":
            return (st, acc)
        acc.viol = {"python-O/" + k: [c, "[under python -OO -bb -W error] " + w, [["-O", x] for x in cs]] for k, (c, w, cs) in acc.viol.items()}
        acc.extra = {"python_O_partitions": 1, "python_O_evaluations": acc.evaluations}
        acc.nontrivial = {hash(("-O", h)) for h in acc.nontrivial}
        acc.samples = []
        return ("ok", acc)
    except BaseException:
        return ("err", "partition %r under python -O: %s" % (part, traceback.format_exc()))


def opt_child():
    import pickle
    assert False, "this interpreter must run with -O"          # (stripped under -O; without -O the child refuses to run)
    if sys.flags.optimize < 2:
        raise SystemExit("this interpreter must run with -OO (assert statements AND docstrings stripped)")
    modname, tier, seed, repo = sys.argv[1:5]
    part = json.loads(sys.stdin.read())
    # the application around the library has DEBUG logging switched on (records go to a sink): whatever the library logs is evaluated
    import io
    import logging
    logging.basicConfig(level=logging.DEBUG, stream=io.StringIO(), force=True)
    setup_repo(repo)
    out = sys.stdout.buffer
    sys.stdout = sys.stderr                     # whatever the partition prints must not corrupt the result
    res = _worker((modname, part, tier, int(seed)))
    out.write(pickle.dumps(res))
    out.flush()


def load_known():
    p = os.path.join(ROOT, "known_findings.json")
    if not os.path.exists(p):
        return {}
    data = json.load(open(p))
    return {(f["property"], f["key"]): f for f in data.get("findings", [])}


def main(argv=None):
    ap = argparse.ArgumentParser()
    ap.add_argument("prop")
    ap.add_argument("--tier", default=os.environ.get("VERIF_TIER", "quick"), choices=["quick", "thorough"])
    ap.add_argument("--replay")
    ap.add_argument("--repo", default=os.environ.get("VF_REPO_DIR", "/repo"))
    ap.add_argument("--jobs", type=int, default=int(os.environ.get("VF_JOBS", "0")) or (os.cpu_count() or 4))
    ap.add_argument("--no-evidence", action="store_true")
    a = ap.parse_args(argv)
    pid = a.prop.upper()
    seed = int(os.environ.get("VERIF_SEED", "0") or 0)
    setup_repo(a.repo)
    modname = "vf.props." + pid.lower()
    try:
        mod = importlib.import_module(modname)
    except Exception:
        traceback.print_exc()
        print("MACHINERY-ERROR property=%s cannot import check" % pid)
        return 2

    if a.replay:
        rec = json.load(open(a.replay))
        case = rec["case"]
        try:
            if isinstance(case, list) and len(case) == 2 and case[0] == "-O":
                import subprocess
                env = dict(os.environ)
                env["PYTHONPATH"] = ROOT
                env["PYTHONHASHSEED"] = "20261003"
                p = subprocess.run([sys.executable, "-OO", "-bb", "-W", "error", "-c",
                                    "import sys, json, io, logging; logging.basicConfig(level=logging.DEBUG, stream=io.StringIO(), force=True); "
                                    "from vf import runner; runner.setup_repo(sys.argv[2]); import importlib; "
                                    "m = importlib.import_module(sys.argv[1]); print(runner.jdump(m.replay(json.loads(sys.stdin.read()))))",
                                    modname, os.environ["VF_REPO"]], input=jdump(case[1]).encode(), capture_output=True, env=env, cwd=ROOT)
                if p.returncode != 0:
                    sys.stderr.write(p.stderr.decode()[-2000:])
                    return 2
                viols = [("python-O/" + k, "[under python -OO -bb -W error] " + w) for k, w in json.loads(p.stdout.decode().strip().splitlines()[-1])]
            elif isinstance(case, list) and len(case) == 2 and case[0] == "-alt":
                import subprocess
                env = dict(os.environ)
                env["PYTHONPATH"] = ROOT
                env["PYTHONHASHSEED"] = "0"
                p = subprocess.run([ALT_PY, "-W", "error", "-c",
                                    "import sys, json; from vf import runner; runner.setup_repo(sys.argv[2]); import importlib; "
                                    "m = importlib.import_module(sys.argv[1]); print(runner.jdump(m.replay(json.loads(sys.stdin.read()))))",
                                    modname, os.environ["VF_REPO"]], input=jdump(case[1]).encode(), capture_output=True, env=env, cwd=ROOT)
                if p.returncode != 0:
                    sys.stderr.write(p.stderr.decode()[-2000:])
                    return 2
                viols = [("python-3.11/" + k, "[under %s] " % ALT_PY + w) for k, w in json.loads(p.stdout.decode().strip().splitlines()[-1])]
            else:
                viols = mod.replay(case)
        except Exception:
            traceback.print_exc()
            return 2
        if viols:
            for key, what in viols:
                print("replayed: key=%s %s" % (key, what))
            print("VIOLATION property=%s replay=%s" % (pid, a.replay))
            return 1
        print("replay: property=%s case no longer fails" % pid)
        return 0

    t0 = time.time()
    scratch = make_scratch()
    try:
        return _run(a, mod, modname, pid, seed, t0)
    finally:
        shutil.rmtree(scratch, ignore_errors=True)


def make_scratch():
    """scratch directory for device nodes: /dev/shm/pyscsi-verif-<pid> (path must start with /dev/); stale ones of dead runs are removed"""
    for base in ("/dev/shm", "/dev"):
        try:
            for n in os.listdir(base):
                if n.startswith("pyscsi-verif-"):
                    p = n.split("-")[-1]
                    if p.isdigit() and not os.path.exists("/proc/" + p):
                        shutil.rmtree(os.path.join(base, n), ignore_errors=True)
            d = os.path.join(base, "pyscsi-verif-%d" % os.getpid())
            os.makedirs(d, exist_ok=True)
            os.environ["VF_SCRATCH"] = d
            return d
        except OSError:
            continue
    os.environ.pop("VF_SCRATCH", None)
    return "/nonexistent-vf-scratch"


def _run(a, mod, modname, pid, seed, t0):
    parts = mod.partitions(a.tier)
    total = Acc(seed)
    errors = []
    jobs = [(modname, p, a.tier, seed) for p in parts]
    if getattr(mod, "SERIAL", False) or a.jobs <= 1 or len(jobs) <= 1:
        results = map(_worker, jobs)
        pool = None
    else:
        ctx = mp.get_context("fork")
        pool = ctx.Pool(min(a.jobs, len(jobs)), maxtasksperchild=getattr(mod, "MAXTASKS", None))
        results = pool.imap_unordered(_worker, jobs, chunksize=1)
    stall = int(os.environ.get("VF_STALL_S", "5400"))
    it = iter(results)
    while True:
        try:
            # a worker killed from outside (out-of-memory killer) loses its task without a word: give up instead of waiting for ever
            st, val = it.next(timeout=stall) if pool else next(it)
        except StopIteration:
            break
        except mp.TimeoutError:
            errors.append("no partition finished within %d s (a worker process may have been killed)" % stall)
            pool.terminate()
            pool = None
            break
        if st == "ok":
            total.merge(val)
        else:
            errors.append(val)
    if pool:
        pool.close()
        pool.join()
    # second pass: the same partitions (or the module's choice of them) in an interpreter started with -O
    ojobs = [(modname, p, a.tier, seed) for p in opt_partitions(mod, a.tier)]
    if ojobs:
        from multiprocessing.pool import ThreadPool
        tp = ThreadPool(max(1, min(a.jobs, len(ojobs))))
        for st, val in tp.imap_unordered(_opt_worker, ojobs):
            if st == "ok":
                total.merge(val)
            else:
                errors.append(val)
        tp.close()
        tp.join()
    # third pass: the same partitions (or the module's choice of them) under another CPython release
    ajobs = [(modname, p, a.tier, seed) for p in alt_partitions(mod, a.tier)]
    if ajobs:
        from multiprocessing.pool import ThreadPool
        tp = ThreadPool(max(1, min(a.jobs, len(ajobs))))
        for st, val in tp.imap_unordered(_alt_worker, ajobs):
            if st == "ok":
                total.merge(val)
            else:
                errors.append(val)
        tp.close()
        tp.join()
    wall = time.time() - t0
    if errors:
        for e in errors[:5]:
            print(e, file=sys.stderr)
        print("MACHINERY-ERROR property=%s %d partition(s) crashed" % (pid, len(errors)))
        return 2

    known = load_known()
    new = []
    n_viol = 0
    def base_key(key):
        # the second pass (child interpreter with -O) re-runs the same inputs: the same failing input there is the same finding
        if key.startswith("python-") and "/" in key:
            return key.split("/", 1)[1]
        return key

    for key, (count, what, cases) in sorted(total.viol.items()):
        n_viol += count
        if (pid, base_key(key)) in known:
            print("KNOWN-FINDING: property=%s %s [%s] (%d case(s) this run)" % (pid, known[(pid, base_key(key))]["what"], key, count))
        else:
            new.append((key, count, what, cases))
    os.makedirs(os.path.join(ROOT, "replays"), exist_ok=True)
    for key, count, what, cases in new:
        rec = {"property": pid, "key": key, "what": what, "count": count, "case": cases[0], "more_cases": cases[1:]}
        dig = hashlib.sha1(jdump([pid, key]).encode()).hexdigest()[:12]
        path = os.path.join(ROOT, "replays", "%s-%s.json" % (pid, dig))
        with open(path, "w") as f:
            f.write(jdump(rec, indent=1))
        print("  key=%s cases=%d: %s" % (key, count, what))
        print("VIOLATION property=%s replay=%s" % (pid, path))

    cov = {
        "evaluations": total.evaluations,
        "distinct_nontrivial": len(total.nontrivial),
        "distinct_outcomes": len(total.outcomes),
        "rule": mod.RULE,
        "samples": [c for _, c in total.samples] or ["(none)"],
        "partitions": len(parts),
        "exhaustive": not total.caps,
        "caps_hit": total.caps,
    }
    if mod.LEVEL == "model_checking":
        cov["states"] = total.states + len(total.stateset)
        cov["transitions"] = total.transitions
        cov["traces_validated_against_impl"] = total.traces
    cov.update({k: v for k, v in total.extra.items()})
    if hasattr(mod, "bounds"):
        cov["bounds"] = mod.bounds(a.tier)
    ev = {
        "property_id": pid,
        "tier": a.tier,
        "seed": seed,
        "level": mod.LEVEL,
        "coverage": cov,
        "assumptions": list(mod.ASSUMPTIONS),
        "wall_s": round(wall, 2),
        "violations": len(new),
        "known_findings_seen": sorted(k for k in total.viol if (pid, base_key(k)) in known),
        "technique": getattr(mod, "TECHNIQUE", ""),
        "repo": os.environ.get("VF_REPO"),
    }
    if not a.no_evidence:
        os.makedirs(os.path.join(ROOT, "evidence"), exist_ok=True)
        with open(os.path.join(ROOT, "evidence", pid + ".json"), "w") as f:
            f.write(jdump(ev, indent=1))
    print("%s tier=%s evaluations=%d distinct_nontrivial=%d outcomes=%d states=%d transitions=%d violations=%d known=%d wall=%.1fs"
          % (pid, a.tier, total.evaluations, len(total.nontrivial), len(total.outcomes), total.states + len(total.stateset),
             total.transitions, len(new), len(ev["known_findings_seen"]), wall))
    return 1 if new else 0
