"""CDB layouts of the 42 command classes - the oracle's own transcription (DESIGN Appendix A).

Notation: 'name@byte.msb:width' (bit 7 = MSB of a byte, msb defaults to 7), as the standards print them.
Sources: SPC-4/5, SBC-3, SMC-3, MMC-6, SAT-3.  Nothing here is derived from the library's _cdb_bits.

Per class:
  module, cls      where the class lives (pyscsi.pyscsi.<module>)
  op, sa, length   T10 operation code, service action (byte 1 bits 4:0) or None, CDB length
  fields           layout string (without opcode / service action)
  tables           [(set, key)] opcode-table entries under which a command set offers the command
  args             constructor parameter -> field name   (parameters that are not CDB fields are in `extra`)
  defaults         field value when the optional parameter is omitted (0 unless listed)
  required         constructor parameters without default, in order (values come from the enumeration)
  extra            non-field constructor parameters and the value the enumeration supplies
  computed         fields whose value is derived by the library (parameter list length) - judged elsewhere (C05/C03)
"""
from vf.spec import bits

A3 = [("spc", "SPC_OPCODE_A3"), ("sbc", "SBC_OPCODE_A3"), ("ssc", "SSC_OPCODE_A3"), ("smc", "SMC_OPCODE_A3")]
ALL5 = lambda k: [(s, k) for s in ("spc", "sbc", "ssc", "smc", "mmc")]   # noqa: E731
NOT_MMC = lambda k: [(s, k) for s in ("spc", "sbc", "ssc", "smc")]      # noqa: E731

RW10 = "dpo@1.4:1 fua@1.3:1 lba@2:32 group@6.4:5 tl@7:16"
RW12 = "dpo@1.4:1 fua@1.3:1 lba@2:32 tl@6:32 group@10.4:5"
RW16 = "dpo@1.4:1 fua@1.3:1 lba@2:64 tl@10:32 group@14.4:5"
ATA_B2 = "off_line@2.7:2 ck_cond@2.5:1 t_type@2.4:1 t_dir@2.3:1 byte_block@2.2:1 t_length@2.1:2"
ATA_ARGS = {"protocal": "protocol", "t_length": "t_length", "byte_block": "byte_block", "t_dir": "t_dir", "t_type": "t_type",
            "off_line": "off_line", "fetures": "fetures", "count": "count", "command": "command", "ck_cond": "ck_cond",
            "device": "device", "control": "control"}


def _c(module, cls, op, length, fields="", tables=(), args=None, sa=None, defaults=None, extra=None, computed=(), required=()):
    return dict(module=module, cls=cls, op=op, length=length, fields=[bits.parse_field(f) for f in fields.split()],
                tables=list(tables), args=dict(args or {}), sa=sa, defaults=dict(defaults or {}), extra=dict(extra or {}),
                computed=tuple(computed), required=tuple(required))


def _ident(*names):
    return {n: n for n in names}


CLASSES = {
    "TestUnitReady": _c("scsi_cdb_testunitready", "TestUnitReady", 0x00, 6, tables=ALL5("TEST_UNIT_READY")),
    "InitializeElementStatus": _c("scsi_cdb_initelementstatus", "InitializeElementStatus", 0x07, 6,
                                  tables=[("smc", "INITIALIZE_ELEMENT_STATUS")]),
    "Inquiry": _c("scsi_cdb_inquiry", "Inquiry", 0x12, 6, "evpd@1.0:1 page_code@2:8 alloc_len@3:16", ALL5("INQUIRY"),
                  {"evpd": "evpd", "page_code": "page_code", "alloclen": "alloc_len"}, defaults={"alloc_len": 96}),
    "ModeSelect6": _c("scsi_cdb_modesense6", "ModeSelect6", 0x15, 6, "pf@1.4:1 sp@1.0:1 parameter_list_length@4:8",
                      NOT_MMC("MODE_SELECT_6"), _ident("pf", "sp"), defaults={"pf": 1}, computed=("parameter_list_length",),
                      required=("data",), extra={"data": "MODEDATA"}),
    "ModeSense6": _c("scsi_cdb_modesense6", "ModeSense6", 0x1A, 6,
                     "dbd@1.3:1 pc@2.7:2 page_code@2.5:6 sub_page_code@3:8 alloc_len@4:8", NOT_MMC("MODE_SENSE_6"),
                     {"page_code": "page_code", "sub_page_code": "sub_page_code", "dbd": "dbd", "pc": "pc", "alloclen": "alloc_len"},
                     defaults={"alloc_len": 96}, required=("page_code",)),
    "OpenCloseImportExportElement": _c("scsi_cdb_openclose_exportimport_element", "OpenCloseImportExportElement", 0x1B, 6,
                                       "element_address@2:16 action_code@4.4:5", [("smc", "OPEN_CLOSE_IMPORT_EXPORT_ELEMENT")],
                                       {"xfer": "element_address", "acode": "action_code"}, required=("xfer", "acode")),
    "PreventAllowMediumRemoval": _c("scsi_cdb_preventallow_mediumremoval", "PreventAllowMediumRemoval", 0x1E, 6, "prevent@4.1:2",
                                    ALL5("PREVENT_ALLOW_MEDIUM_REMOVAL"), _ident("prevent")),
    "ReadCapacity10": _c("scsi_cdb_readcapacity10", "ReadCapacity10", 0x25, 10, "",
                         [("sbc", "READ_CAPACITY_10"), ("mmc", "READ_CAPACITY")]),
    "Read10": _c("scsi_cdb_read10", "Read10", 0x28, 10, "rdprotect@1.7:3 rarc@1.2:1 " + RW10,
                 [("sbc", "READ_10"), ("mmc", "READ_10")], _ident("lba", "tl", "rdprotect", "dpo", "fua", "rarc", "group"),
                 required=("lba", "tl"), extra={"blocksize": 1}),
    "Write10": _c("scsi_cdb_write10", "Write10", 0x2A, 10, "wrprotect@1.7:3 " + RW10,
                  [("sbc", "WRITE_10"), ("mmc", "WRITE_10")], _ident("lba", "tl", "wrprotect", "dpo", "fua", "group"),
                  required=("lba", "tl"), extra={"blocksize": 1, "data": "TLDATA"}),
    "PositionToElement": _c("scsi_cdb_positiontoelement", "PositionToElement", 0x2B, 10,
                            "medium_transport_address@2:16 destination_address@4:16 invert@8.0:1", [("smc", "POSITION_TO_ELEMENT")],
                            {"xfer": "medium_transport_address", "dest": "destination_address", "invert": "invert"},
                            required=("xfer", "dest")),
    "SynchronizeCache10": _c("scsi_cdb_synchronize_cache10", "SynchronizeCache10", 0x35, 10,
                             "immed@1.1:1 lba@2:32 group@6.4:5 numblks@7:16",
                             [("sbc", "SYNCHRONIZE_CACHE_10"), ("mmc", "SYNCHRONIZE_CACHE")],
                             _ident("lba", "numblks", "immed", "group"), required=("lba", "numblks")),
    "InitializeElementStatusWithRange": _c("scsi_cdb_initelementstatuswithrange", "InitializeElementStatusWithRange", 0x37, 10,
                                           "fast@1.1:1 range@1.0:1 starting_element_address@2:16 number_of_elements@6:16",
                                           [("smc", "INITIALIZE_ELEMENT_STATUS_WITH_RANGE")],
                                           {"xfer": "starting_element_address", "elements": "number_of_elements", "rng": "range",
                                            "fast": "fast"}, required=("xfer", "elements")),
    "WriteSame10": _c("scsi_cdb_writesame10", "WriteSame10", 0x41, 10,
                      "wrprotect@1.7:3 anchor@1.4:1 unmap@1.3:1 lba@2:32 group@6.4:5 nb@7:16", [("sbc", "WRITE_SAME_10")],
                      _ident("lba", "nb", "wrprotect", "anchor", "unmap", "group"), required=("lba", "nb"),
                      extra={"blocksize": 1, "data": "ONEBLOCK"}),
    "ReadDiscInformation": _c("scsi_cdb_readdiscinformation", "ReadDiscInformation", 0x51, 10, "data_type@1.2:3 alloc_len@7:16",
                              [("mmc", "READ_DISC_INFORMATION")], _ident("data_type", "alloc_len"), defaults={"alloc_len": 4096},
                              required=("data_type",)),
    "ModeSelect10": _c("scsi_cdb_modesense10", "ModeSelect10", 0x55, 10, "pf@1.4:1 sp@1.0:1 parameter_list_length@7:16",
                       ALL5("MODE_SELECT_10"), _ident("pf", "sp"), defaults={"pf": 1}, computed=("parameter_list_length",),
                       required=("data",), extra={"data": "MODEDATA"}),
    "ModeSense10": _c("scsi_cdb_modesense10", "ModeSense10", 0x5A, 10,
                      "llbaa@1.4:1 dbd@1.3:1 pc@2.7:2 page_code@2.5:6 sub_page_code@3:8 alloc_len@7:16", ALL5("MODE_SENSE_10"),
                      {"page_code": "page_code", "sub_page_code": "sub_page_code", "llbaa": "llbaa", "dbd": "dbd", "pc": "pc",
                       "alloclen": "alloc_len"}, defaults={"alloc_len": 96}, required=("page_code",)),
    "PersistentReserveIn": _c("scsi_cdb_persistentreservein", "PersistentReserveIn", 0x5E, 10, "service_action@1.4:5 alloc_len@7:16",
                              NOT_MMC("PERSISTENT_RESERVE_IN"), {"service_action": "service_action", "alloclen": "alloc_len"},
                              defaults={"alloc_len": 1024}, required=("service_action",)),
    "PersistentReserveOut": _c("scsi_cdb_persistentreserveout", "PersistentReserveOut", 0x5F, 10,
                               "service_action@1.4:5 scope@2.7:4 pr_type@2.3:4 parameter_list_length@5:32",
                               NOT_MMC("PERSISTENT_RESERVE_OUT"), _ident("service_action", "scope", "pr_type"),
                               computed=("parameter_list_length",), required=("service_action",)),
    "ExtendedCopy4": _c("scsi_cdb_extended_copy_spc4", "ExtendedCopy", 0x83, 16, "parameter_list_length@10:32",
                        [("spc", "EXTENDED_COPY"), ("sbc", "EXTENDED_COPY"), ("ssc", "EXTENDED_COPY")], sa=0,
                        computed=("parameter_list_length",)),
    "ExtendedCopy5": _c("scsi_cdb_extended_copy_spc5", "ExtendedCopy", 0x83, 16, "parameter_list_length@10:32",
                        [("spc", "EXTENDED_COPY"), ("sbc", "EXTENDED_COPY"), ("ssc", "EXTENDED_COPY")], sa=1,
                        computed=("parameter_list_length",)),
    "ATAPassThrough16": _c("scsi_cdb_atapassthrough16", "ATAPassThrough16", 0x85, 16,
                           "protocol@1.4:4 extend@1.0:1 " + ATA_B2 + " fetures@3:16 count@5:16 device@13:8 command@14:8 control@15:8",
                           [("sbc", "ATA_PASS_THROUGH_16")], dict(ATA_ARGS, extend="extend"), defaults={"extend": 1},
                           required=("protocal", "t_length", "byte_block", "t_dir", "t_type", "off_line", "fetures", "count", "lba",
                                     "command"), extra={"lba": "ATALBA"}),
    "Read16": _c("scsi_cdb_read16", "Read16", 0x88, 16, "rdprotect@1.7:3 rarc@1.2:1 " + RW16, [("sbc", "READ_16"), ("ssc", "READ_16")],
                 _ident("lba", "tl", "rdprotect", "dpo", "fua", "rarc", "group"), required=("lba", "tl"), extra={"blocksize": 1}),
    "Write16": _c("scsi_cdb_write16", "Write16", 0x8A, 16, "wrprotect@1.7:3 " + RW16, [("sbc", "WRITE_16"), ("ssc", "WRITE_16")],
                  _ident("lba", "tl", "wrprotect", "dpo", "fua", "group"), required=("lba", "tl"),
                  extra={"blocksize": 1, "data": "TLDATA"}),
    "SynchronizeCache16": _c("scsi_cdb_synchronize_cache16", "SynchronizeCache16", 0x91, 16,
                             "immed@1.1:1 lba@2:64 numblks@10:32 group@14.4:5", [("sbc", "SYNCHRONIZE_CACHE_16")],
                             _ident("lba", "numblks", "immed", "group"), required=("lba", "numblks")),
    "WriteSame16": _c("scsi_cdb_writesame16", "WriteSame16", 0x93, 16,
                      "wrprotect@1.7:3 anchor@1.4:1 unmap@1.3:1 ndob@1.0:1 lba@2:64 nb@10:32 group@14.4:5", [("sbc", "WRITE_SAME_16")],
                      _ident("lba", "nb", "wrprotect", "anchor", "unmap", "ndob", "group"), required=("lba", "nb"),
                      extra={"blocksize": 1, "data": "ONEBLOCK"}),
    "ReadCapacity16": _c("scsi_cdb_readcapacity16", "ReadCapacity16", 0x9E, 16, "alloc_len@10:32", [("sbc", "SBC_OPCODE_9E")],
                         {"alloclen": "alloc_len"}, sa=0x10, defaults={"alloc_len": 32}),
    "GetLBAStatus": _c("scsi_cdb_getlbastatus", "GetLBAStatus", 0x9E, 16, "lba@2:64 alloc_len@10:32", [("sbc", "SBC_OPCODE_9E")],
                       {"lba": "lba", "alloclen": "alloc_len"}, sa=0x12, defaults={"alloc_len": 16384}, required=("lba",)),
    "ReportLuns": _c("scsi_cdb_report_luns", "ReportLuns", 0xA0, 12, "select_report@2:8 alloc_len@6:32", ALL5("REPORT_LUNS"),
                     {"report": "select_report", "alloclen": "alloc_len"}, defaults={"alloc_len": 96}),
    "ATAPassThrough12": _c("scsi_cdb_atapassthrough12", "ATAPassThrough12", 0xA1, 12,
                           "protocol@1.4:4 " + ATA_B2 + " fetures@3:8 count@4:8 device@8:8 command@9:8 control@11:8",
                           [("sbc", "ATA_PASS_THROUGH_12")], ATA_ARGS,
                           required=("protocal", "t_length", "byte_block", "t_dir", "t_type", "off_line", "fetures", "count", "lba",
                                     "command"), extra={"lba": "ATALBA"}),
    "ReportTargetPortGroups": _c("scsi_cdb_report_target_port_groups", "ReportTargetPortGroups", 0xA3, 12,
                                 "parameter_data_format@1.7:3 alloc_len@6:32", A3,
                                 {"data_format": "parameter_data_format", "alloclen": "alloc_len"}, sa=0x0A,
                                 defaults={"alloc_len": 16384}),
    "ReportPriority": _c("scsi_cdb_report_priority", "ReportPriority", 0xA3, 12, "priority_reported@2.7:2 alloc_len@6:32", A3,
                         {"priority": "priority_reported", "alloclen": "alloc_len"}, sa=0x0E, defaults={"alloc_len": 16384}),
    "MoveMedium": _c("scsi_cdb_movemedium", "MoveMedium", 0xA5, 12,
                     "medium_transport_address@2:16 source_address@4:16 destination_address@6:16 invert@10.0:1", [("smc", "MOVE_MEDIUM")],
                     {"xfer": "medium_transport_address", "source": "source_address", "dest": "destination_address", "invert": "invert"},
                     required=("xfer", "source", "dest")),
    "ExchangeMedium": _c("scsi_cdb_exchangemedium", "ExchangeMedium", 0xA6, 12,
                         "medium_transport_address@2:16 source_address@4:16 first_destination_address@6:16 "
                         "second_destination_address@8:16 inv1@10.1:1 inv2@10.0:1", [("smc", "EXCHANGE_MEDIUM")],
                         {"xfer": "medium_transport_address", "source": "source_address", "dest1": "first_destination_address",
                          "dest2": "second_destination_address", "inv1": "inv1", "inv2": "inv2"},
                         required=("xfer", "source", "dest1", "dest2")),
    "Read12": _c("scsi_cdb_read12", "Read12", 0xA8, 12, "rdprotect@1.7:3 rarc@1.2:1 " + RW12, [("sbc", "READ_12"), ("mmc", "READ_12")],
                 _ident("lba", "tl", "rdprotect", "dpo", "fua", "rarc", "group"), required=("lba", "tl"), extra={"blocksize": 1}),
    "Write12": _c("scsi_cdb_write12", "Write12", 0xAA, 12, "wrprotect@1.7:3 " + RW12, [("sbc", "WRITE_12"), ("mmc", "WRITE_12")],
                  _ident("lba", "tl", "wrprotect", "dpo", "fua", "group"), required=("lba", "tl"),
                  extra={"blocksize": 1, "data": "TLDATA"}),
    "ReadElementStatus": _c("scsi_cdb_readelementstatus", "ReadElementStatus", 0xB8, 12,
                            "voltag@1.4:1 element_type@1.3:4 starting_element_address@2:16 num_elements@4:16 curdata@6.1:1 "
                            "dvcid@6.0:1 alloc_len@7:24", [("smc", "READ_ELEMENT_STATUS")],
                            {"start": "starting_element_address", "num": "num_elements", "element_type": "element_type",
                             "voltag": "voltag", "curdata": "curdata", "dvcid": "dvcid", "alloclen": "alloc_len"},
                            defaults={"curdata": 1, "alloc_len": 16384}, required=("start", "num")),
    "ReadCd": _c("scsi_cdb_readcd", "ReadCd", 0xBE, 12, "est@1.4:3 dap@1.1:1 lba@2:32 tl@6:24 mcsb@9.7:5 c2ei@9.2:2 scsb@10.2:3",
                 [("mmc", "READ_CD")], _ident("lba", "tl", "est", "dap", "mcsb", "c2ei", "scsb")),
}
for _n, _sa in (("ReadKeys", 0), ("ReadReservation", 1), ("ReportCapabilities", 2), ("ReadFullStatus", 3)):
    CLASSES["PersistentReserveIn" + _n] = _c("scsi_cdb_persistentreservein", "PersistentReserveIn" + _n, 0x5E, 10, "alloc_len@7:16",
                                              NOT_MMC("PERSISTENT_RESERVE_IN"), {"alloclen": "alloc_len"}, sa=_sa,
                                              defaults={"alloc_len": 1024})

# fields whose value sizes a buffer the constructor allocates (value is capped by the enumeration)
ALLOCATING = {"alloc_len", "tl"}
# ATA PASS-THROUGH: SAT placement of the 48/24-bit ATA LBA, byte by byte: cdb byte -> LBA bit range (lo bit)
ATA_LBA_BYTES = {
    "ATAPassThrough16": {8: 0, 10: 8, 12: 16, 7: 24, 9: 32, 11: 40},
    "ATAPassThrough12": {5: 0, 6: 8, 7: 16},
}


def spec_fields(name):
    """all judged (name, byte, msb, width) including the service-action field"""
    c = CLASSES[name]
    f = list(c["fields"])
    if c["sa"] is not None:
        f.append(("service_action", 1, 4, 5))
    return f


def covered_mask(name):
    """integer mask (over the whole CDB) of all bits some spec field (or the opcode, or the ATA LBA) occupies"""
    c = CLASSES[name]
    n = c["length"]
    m = bits.field_mask(n, 0, 7, 8)
    for (_, b, msb, w) in spec_fields(name):
        m |= bits.field_mask(n, b, msb, w)
    for b in ATA_LBA_BYTES.get(name, {}):
        m |= bits.field_mask(n, b, 7, 8)
    return m


def decode(name, cdb):
    """what a conformant target reads from the CDB"""
    c = CLASSES[name]
    out = {"opcode": cdb[0]}
    for (f, b, msb, w) in spec_fields(name):
        out[f] = bits.extract(cdb, b, msb, w)
    if name in ATA_LBA_BYTES:
        lba = 0
        for b, lo in ATA_LBA_BYTES[name].items():
            lba |= cdb[b] << lo
        out["lba"] = lba
    return out


def encode(name, values):
    """spec encoder: values {field: int} -> CDB bytes (undefined bits zero)"""
    c = CLASSES[name]
    buf = bytes(c["length"])
    buf = bits.deposit(buf, 0, 7, 8, c["op"])
    for (f, b, msb, w) in spec_fields(name):
        v = values.get(f, c["sa"] if f == "service_action" and c["sa"] is not None else 0)
        buf = bits.deposit(buf, b, msb, w, v)
    if name in ATA_LBA_BYTES:
        lba = values.get("lba", 0)
        for b, lo in ATA_LBA_BYTES[name].items():
            buf = bits.deposit(buf, b, 7, 8, (lba >> lo) & 0xFF)
    return buf


def selfcheck():
    from vf.spec import opcodes
    n = 0
    for name, c in CLASSES.items():
        ln = c["length"]
        assert opcodes.cdb_length(c["op"]) == ln, name
        seen = bits.field_mask(ln, 0, 7, 8)
        for (f, b, msb, w) in spec_fields(name):
            m = bits.field_mask(ln, b, msb, w)          # raises if beyond the CDB
            assert not (seen & m), "%s: field %s overlaps" % (name, f)
            seen |= m
            n += 1
        for b in ATA_LBA_BYTES.get(name, {}):
            m = bits.field_mask(ln, b, 7, 8)
            assert not (seen & m), "%s: LBA byte %d overlaps" % (name, b)
            seen |= m
        # control byte (last byte) is never covered except for ATA where the caller supplies it
        assert name.startswith("ATA") or not (seen & 0xFF), name
        for a, f in c["args"].items():
            assert f in [x[0] for x in spec_fields(name)], (name, a, f)
        for st, key in c["tables"]:
            v = opcodes.t10_value(st, key)
            assert v == c["op"], "%s: table %s.%s is %r, class opcode %#x" % (name, st, key, v, c["op"])
            n += 1
    assert len(CLASSES) == 42, len(CLASSES)
    return n
