"""Data-out formats: the oracle's own *decoders* (bytes -> semantic values) for the parameter lists the library composes.

Positions as the standards print them (SPC-4 6.3 EXTENDED COPY, 6.14/6.15 PERSISTENT RESERVE OUT, 7.5 mode parameters, 7.6.4 TransportIDs).
Every decoder also returns the list of *length problems* it found: embedded length fields that do not equal the bytes that follow.
"""
from vf.spec import bits
from vf.spec import responses as R


def get(buf, fields):
    return {k: bits.extract(buf, b, msb, w) for (k, b, msb, w) in fields}


# ---------------------------------------------------------------------------------------------------------
def mode_list(buf, ten):
    """-> (header dict, [page dicts], problems)"""
    problems = []
    hl = 8 if ten else 4
    if len(buf) < hl:
        return {}, [], ["list shorter than its header"]
    hdr = get(buf, R.MODE_HDR10 if ten else R.MODE_HDR6)
    mdl = bits.extract(buf, 0, 7, 16 if ten else 8)
    follow = len(buf) - (2 if ten else 1)
    if mdl not in (0, follow):
        problems.append("MODE DATA LENGTH is %d, %d bytes follow it (0 = reserved for MODE SELECT is accepted too)" % (mdl, follow))
    bdl = bits.extract(buf, 6, 7, 16) if ten else buf[3]
    pos = hl + bdl
    pages = []
    while pos < len(buf):
        p = get(buf[pos:pos + 2] + bytes(2), R.PAGE0)
        if p["spf"]:
            if pos + 4 > len(buf):
                problems.append("truncated sub-page header")
                break
            p["sub_page_code"] = buf[pos + 1]
            plen = bits.extract(buf, pos + 2, 7, 16)
            body = pos + 4
        else:
            plen = buf[pos + 1]
            body = pos + 2
        if body + plen > len(buf):
            problems.append("page %#x: PAGE LENGTH %d but only %d bytes follow" % (p["page_code"], plen, len(buf) - body))
        key = (p["page_code"], p.get("sub_page_code"))
        if key in R.MODE_PAGES:
            fields, want = R.MODE_PAGES[key]
            if plen != want:
                problems.append("page %r: PAGE LENGTH %d, the standard's page has %d bytes" % (key, plen, want))
            p.update(get(bytes(buf[body:body + plen]) + bytes(64), fields))
        p["_length"] = plen
        pages.append(p)
        pos = body + plen
    return hdr, pages, problems


# ---------------------------------------------------------------------------------------------------------
def transport_id(buf):
    """-> (dict with library keys, total length, problems)"""
    problems = []
    fmt = bits.extract(buf, 0, 7, 2)
    proto = bits.extract(buf, 0, 3, 4)
    d = {"protocol_id": proto, "tpid_format": fmt}
    if proto == 5:
        al = bits.extract(buf, 2, 7, 16)
        total = 4 + al
        if al % 4:
            problems.append("iSCSI TransportID ADDITIONAL LENGTH %d is not a multiple of 4" % al)
        raw = bytes(buf[4:total])
        if len(raw) != al:
            problems.append("iSCSI TransportID ADDITIONAL LENGTH %d but %d bytes follow" % (al, len(raw)))
        if not raw.endswith(b"\0"):
            problems.append("iSCSI TransportID name is not NUL-terminated")
        s = raw.rstrip(b"\0").decode("utf-8", "replace")
        if b"\0" in raw.rstrip(b"\0"):
            problems.append("iSCSI TransportID has a NUL inside the name")
        if fmt == 1:
            name, sep, sid = s.partition(",i,0x")
            d["iscsi_name"] = name
            d["iscsi_initiator_session_id"] = sid
            if not sep:
                problems.append("format 01b without ',i,0x' separator")
        else:
            d["iscsi_name"] = s
        return d, total, problems
    total = 24
    if len(buf) < 24:
        problems.append("TransportID shorter than 24 bytes")
    b = bytes(buf[:24]) + bytes(24)
    if proto == 0:
        d["n_port_name"] = b[8:16]
    elif proto == 3:
        d["eui64_name"] = b[8:16]
    elif proto == 4:
        d["initiator_port_identifier"] = b[8:24]
    elif proto == 6:
        d["sas_address"] = b[4:12]
    return d, total, problems


PR_BASIC = R.F("reservation_key@0:64 service_action_reservation_key@8:64 spec_i_pt@20.3:1 all_tg_pt@20.2:1 aptpl@20.0:1")
PR_MOVE = R.F("reservation_key@0:64 service_action_reservation_key@8:64 unreg@17.1:1 aptpl@17.0:1 relative_target_port_id@18:16")


def pr_out_basic(buf):
    problems = []
    if len(buf) < 24:
        return {}, [], ["basic parameter list shorter than 24 bytes"]
    d = get(buf, PR_BASIC)
    tids = []
    if d["spec_i_pt"]:
        if len(buf) < 28:
            problems.append("SPEC_I_PT set but no TRANSPORTID PARAMETER DATA LENGTH")
        else:
            tl = bits.extract(buf, 24, 7, 32)
            if tl != len(buf) - 28:
                problems.append("TRANSPORTID PARAMETER DATA LENGTH %d, %d bytes follow" % (tl, len(buf) - 28))
            pos = 28
            while pos < len(buf):
                t, n, p = transport_id(buf[pos:])
                problems += p
                tids.append(t)
                pos += n
            if pos != len(buf):
                problems.append("TransportIDs overrun the list by %d bytes" % (pos - len(buf)))
    elif len(buf) != 24:
        problems.append("basic parameter list without SPEC_I_PT is %d bytes, expected 24" % len(buf))
    return d, tids, problems


def pr_out_move(buf):
    problems = []
    if len(buf) < 24:
        return {}, None, ["REGISTER AND MOVE list shorter than 24 bytes"]
    d = get(buf, PR_MOVE)
    tl = bits.extract(buf, 20, 7, 32)
    if tl != len(buf) - 24:
        problems.append("TRANSPORTID LENGTH %d, %d bytes follow" % (tl, len(buf) - 24))
    tid = None
    if len(buf) > 24:
        tid, n, p = transport_id(buf[24:])
        problems += p
        if n != len(buf) - 24:
            problems.append("TransportID is %d bytes, %d follow the header" % (n, len(buf) - 24))
    return d, tid, problems


# ---------------------------------------------------------------------------------------------------------
LID1 = R.F("list_identifier@0:8 str@1.5:1 nrcr@1.4:1 priority@1.2:3 target_descriptor_list_length@2:16 segment_descriptor_list_length@8:32 "
           "inline_data_length@12:32")
LID4 = R.F("parameter_list_format@0:8 str@1.5:1 list_id_usage@1.4:2 priority@1.2:3 header_cscd_descriptor_list_length@2:16 g_sense@15.1:1 "
           "immed@15.0:1 header_cscd_descriptor_type_code@16:8 list_identifier@20:32 cscd_descriptor_list_length@42:16 "
           "segment_descriptor_list_length@44:16 inline_data_length@46:16")
CSCD = R.F("descriptor_type_code@0:8 lu_id_type@1.7:2 peripheral_device_type@1.4:5 relative_initiator_port_identifier@2:16 code_set@4.3:4 "
           "association@5.5:2 designator_type@5.3:4 designator_length@7:8 pad@28.2:1 fixed@28.0:1 block_length@29:24")
SEG_BS = R.F("descriptor_type_code@0:8 cat@1.0:1 descriptor_length@2:16 source@4:16 destination@6:16 stream_device_transfer_length@9:24 "
             "block_device_number_of_blocks@14:16 block_device_logical_block_address@16:64")
SEG_BB = R.F("descriptor_type_code@0:8 dc@1.1:1 cat@1.0:1 descriptor_length@2:16 source@4:16 destination@6:16 "
             "block_device_number_of_blocks@10:16 source_block_device_logical_block_address@12:64 "
             "destination_block_device_logical_block_address@20:64")
SEG_SIZE = {0x00: 24, 0x01: 24, 0x0B: 24, 0x0C: 24, 0x02: 28, 0x0D: 28}


def xcopy(buf, lid4):
    """-> (header, [cscd dicts], [segment dicts], inline bytes, problems)"""
    problems = []
    hl = 48 if lid4 else 16
    if len(buf) < hl:
        return {}, [], [], b"", ["parameter list shorter than its header"]
    hdr = get(buf, LID4 if lid4 else LID1)
    tl = hdr["cscd_descriptor_list_length" if lid4 else "target_descriptor_list_length"]
    sl = hdr["segment_descriptor_list_length"]
    il = hdr["inline_data_length"]
    if hl + tl + sl + il != len(buf):
        problems.append("header lengths %d+%d+%d+%d do not add up to the list length %d" % (hl, tl, sl, il, len(buf)))
    if lid4:
        if hdr["parameter_list_format"] != 1:
            problems.append("PARAMETER LIST FORMAT %#x, expected 01h" % hdr["parameter_list_format"])
        if hdr["header_cscd_descriptor_list_length"] != 0x20 or hdr["header_cscd_descriptor_type_code"] != 0xFF:
            problems.append("LID4 header constants %#x/%#x, expected 0020h/FFh" % (hdr["header_cscd_descriptor_list_length"], hdr["header_cscd_descriptor_type_code"]))
    cscds = []
    pos = hl
    end = hl + tl
    while pos < end:
        d = get(bytes(buf[pos:pos + 32]) + bytes(32), CSCD)
        d["designator_bytes"] = bytes(buf[pos + 8:pos + 8 + d["designator_length"]])
        if d["designator_length"] > 20:
            problems.append("CSCD designator length %d exceeds the 20 bytes available" % d["designator_length"])
        cscds.append(d)
        pos += 32
    if pos != end:
        problems.append("CSCD descriptor list length %d is not a multiple of 32" % tl)
    segs = []
    pos = end
    end = end + sl
    while pos < end:
        code = buf[pos]
        size = SEG_SIZE.get(code)
        dl = bits.extract(buf, pos + 2, 7, 16)
        if size is None:
            problems.append("segment descriptor type %#x not decodable by the oracle" % code)
            break
        if dl != size - 4:
            problems.append("segment %#x: DESCRIPTOR LENGTH %d, %d bytes follow the length field" % (code, dl, size - 4))
        segs.append(get(bytes(buf[pos:pos + size]) + bytes(32), SEG_BB if size == 28 else SEG_BS))
        pos += size
    if pos != end and not problems:
        problems.append("segment descriptors end at %d, header says %d" % (pos, end))
    inline = bytes(buf[end:end + il])
    return hdr, cscds, segs, inline, problems
