"""Data-in formats: the oracle's own encoders (semantic values -> bytes) with the positions the standards print.

Every format is described in 'key@byte.msb:width' notation (bit 7 = MSB) using the *library's* result key as the
name, so that a decoded dictionary can be compared key by key.  Nothing here is derived from the library's tables.
Sources: SPC-4, SBC-3, SMC-3, MMC-6, SAT-3 (DESIGN.md Appendix B).
"""
from vf.spec import bits


def F(s):
    return [bits.parse_field(x) for x in s.split()]


def put(buf, fields, values):
    """deposit values (by key) into buf (bytes) according to fields"""
    for (k, b, msb, w) in fields:
        if k in values:
            buf = bits.deposit(buf, b, msb, w, values[k])
    return buf


def width_of(fields, key):
    for (k, b, msb, w) in fields:
        if k == key:
            return w
    raise KeyError(key)


# ---------------------------------------------------------------------------------------------------------
# INQUIRY
# ---------------------------------------------------------------------------------------------------------
PERIPHERAL = F("peripheral_qualifier@0.7:3 peripheral_device_type@0.4:5")
STD_INQUIRY = PERIPHERAL + F(
    "rmb@1.7:1 version@2:8 normaca@3.5:1 hisup@3.4:1 response_data_format@3.3:4 additional_length@4:8 "
    "sccs@5.7:1 acc@5.6:1 tpgs@5.5:2 3pc@5.3:1 protect@5.0:1 encserv@6.6:1 vs@6.5:1 multip@6.4:1 addr16@6.0:1 "
    "wbus16@7.5:1 sync@7.4:1 cmdque@7.1:1 vs2@7.0:1 clocking@56.3:2 qas@56.1:1 ius@56.0:1")
STD_INQUIRY_BLOBS = [("t10_vendor_identification", 8, 8), ("product_identification", 16, 16), ("product_revision_level", 32, 4)]


def std_inquiry(values, blobs=None, size=96):
    b = bytes(size)
    v = dict(values)
    v.setdefault("additional_length", size - 5)
    b = put(b, STD_INQUIRY, v)
    b = bytearray(b)
    for (k, off, ln) in STD_INQUIRY_BLOBS:
        if blobs and k in blobs:
            b[off:off + ln] = blobs[k]
    return bytes(b)


def vpd(page_code, body, qualifier=0, device_type=0):
    """VPD page: byte 0 qualifier/type, 1 page code, 2-3 PAGE LENGTH (n-3), then body"""
    h = bytes(4)
    h = put(h, PERIPHERAL, {"peripheral_qualifier": qualifier, "peripheral_device_type": device_type})
    h = bits.deposit(h, 1, 7, 8, page_code)
    h = bits.deposit(h, 2, 7, 16, len(body))
    return h + bytes(body)


# positions are absolute within the page (header included)
VPD_86 = F("activate_microcode@4.7:2 spt@4.5:3 grd_chk@4.2:1 app_chk@4.1:1 ref_chk@4.0:1 uask_sup@5.5:1 group_sup@5.4:1 prior_sup@5.3:1 "
           "headsup@5.2:1 ordsup@5.1:1 simpsup@5.0:1 wu_sup@6.3:1 crd_sup@6.2:1 nv_sup@6.1:1 v_sup@6.0:1 p_i_i_sup@7.4:1 luiclr@7.0:1 "
           "r_sup@8.4:1 cbcs@8.0:1 multi_it_nexus_microcode_download@9.3:4 extended_self_test_completion_minutes@10:16 poa_sup@12.7:1 "
           "hra_sup@12.6:1 vsa_sup@12.5:1 maximum_supported_sense_data_length@13:8")
VPD_B0 = F("wsnz@4.0:1 max_caw_len@5:8 opt_xfer_len_gran@6:16 max_xfer_len@8:32 opt_xfer_len@12:32 max_pfetch_len@16:32 "
           "max_unmap_lba_count@20:32 max_unmap_bd_count@24:32 opt_unmap_gran@28:32 ugavalid@32.7:1 unmap_gran_alignment@32.6:31 "
           "max_ws_len@36:64")
VPD_B1 = F("medium_rotation_rate@4:16 product_type@6:8 wabereq@7.7:2 wacereq@7.5:2 nominal_form_factor@7.3:4 fuab@8.1:1 vbuls@8.0:1")
VPD_B2 = F("threshold_exponent@4:8 lbpu@5.7:1 lpbws@5.6:1 lbpws10@5.5:1 lbprz@5.2:1 anc_sup@5.1:1 dp@5.0:1 provisioning_type@6.2:3")
VPD_B3 = F("user_data_segment_size@8:32 user_data_segment_multiplier@12:32")
VPD_FIXED = {0x86: (VPD_86, 64), 0xB0: (VPD_B0, 64), 0xB1: (VPD_B1, 64), 0xB2: (VPD_B2, 8), 0xB3: (VPD_B3, 16)}


def vpd_fixed(page_code, values, qualifier=0, device_type=0):
    fields, size = VPD_FIXED[page_code]
    page = vpd(page_code, bytes(size - 4), qualifier, device_type)
    return put(page, fields, values)


# SAT ATA Information VPD page (89h): 8-15 vendor, 16-31 product, 32-35 revision, 36-55 device signature (D2H register FIS),
# 56 command code, 60-571 IDENTIFY (PACKET) DEVICE data (256 words, little-endian words; strings byte-swapped per ATA)
def vpd_89(vendor, product, revision, fis, command_code, identify):
    body = bytearray(568)
    body[4:12] = vendor
    body[12:28] = product
    body[28:32] = revision
    body[32:52] = fis
    body[52] = command_code
    body[56:568] = identify
    return vpd(0x89, bytes(body))


# ---- designation descriptors (83h) ----------------------------------------------------------------------
DESIGNATOR_HDR = F("protocol_identifier@0.7:4 code_set@0.3:4 piv@1.7:1 association@1.5:2 designator_type@1.3:4 designator_length@3:8")
NAA2 = F("naa@0.7:4 vendor_specific_identifier_a@0.3:12 ieee_company_id@2:24 vendor_specific_identifier_b@5:24")
NAA3 = F("naa@0.7:4 locally_administered_value@0.3:60")
NAA5 = F("naa@0.7:4 ieee_company_id@0.3:24 vendor_specific_identifier@3.3:36")
NAA6 = NAA5 + F("vendor_specific_identifier_extension@8:64")
NAA_FMT = {2: (NAA2, 8), 3: (NAA3, 8), 5: (NAA5, 8), 6: (NAA6, 16)}


def designator_bytes(dtype, d):
    """designator payload for type dtype from the library-keyed dict d"""
    if dtype == 0:
        return bytes(d["vendor_specific"])
    if dtype == 1:
        return bytes(d["t10_vendor_id"]) + bytes(d["vendor_specific_id"])
    if dtype == 2:
        cid = d["ieee_company_id"].to_bytes(3, "big")
        if "identifier_extension" in d:
            return bytes(d["identifier_extension"]) + cid + bytes(d["vendor_specific_extension_id"])
        if "directory_id" in d:
            return cid + bytes(d["vendor_specific_extension_id"]) + bytes(d["directory_id"])
        return cid + bytes(d["vendor_specific_extension_id"])
    if dtype == 3:
        fields, size = NAA_FMT[d["naa"]]
        return put(bytes(size), fields, d)
    if dtype in (4, 5, 6):
        key = {4: "relative_port", 5: "target_portal_group", 6: "logical_unit_group"}[dtype]
        return bytes(2) + d[key].to_bytes(2, "big")
    if dtype == 7:
        return bytes(d["md5_logical_identifier"])
    if dtype == 8:
        return bytes(d["scsi_name_string"])
    raise ValueError(dtype)


def designation_descriptor(hdr, designator):
    payload = designator_bytes(hdr["designator_type"], designator)
    h = put(bytes(4), DESIGNATOR_HDR, dict(hdr, designator_length=len(payload)))
    return h + payload


def vpd_83(descriptors):
    return vpd(0x83, b"".join(designation_descriptor(h, d) for (h, d) in descriptors))


# ---------------------------------------------------------------------------------------------------------
# MODE SENSE
# ---------------------------------------------------------------------------------------------------------
MODE_HDR6 = F("medium_type@1:8 device_specific_parameter@2:8")
MODE_HDR10 = F("medium_type@2:8 device_specific_parameter@3:8 longlba@4.0:1")
PAGE0 = F("ps@0.7:1 spf@0.6:1 page_code@0.5:6")
SUBPAGE = PAGE0 + F("sub_page_code@1:8")
# page bodies: positions relative to the first byte after the page header
PAGE_CONTROL = F("tst@0.7:3 tmf_only@0.4:1 dpicz@0.3:1 d_sense@0.2:1 gltsd@0.1:1 rlec@0.0:1 queue_algorithm_modifier@1.7:4 nuar@1.3:1 "
                 "qerr@1.2:2 vs@2.7:1 rac@2.6:1 ua_intlck_ctrl@2.5:2 swp@2.3:1 ato@3.7:1 tas@3.6:1 atmpe@3.5:1 rwwp@3.4:1 "
                 "autoload_mode@3.2:3 busy_timeout_period@6:16 extended_self_test_completion_time@8:16")
PAGE_CONTROL_EXT = F("tcmos@0.2:1 scsip@0.1:1 ialuae@0.0:1 initial_command_priority@1.3:4 maximum_sense_data_length@2:8")
PAGE_DISCONNECT = F("buffer_full_ratio@0:8 buffer_empty_ratio@1:8 bus_inactivity_limit@2:16 disconnect_time_limit@4:16 "
                    "connect_time_limit@6:16 maximum_burst_size@8:16 emdp@10.7:1 fair_arbitration@10.6:3 dimm@10.3:1 dtdc@10.2:3 "
                    "first_burst_size@12:16")
PAGE_ELEMENT = F("first_medium_transport_element_address@0:16 num_medium_transport_elements@2:16 first_storage_element_address@4:16 "
                 "num_storage_elements@6:16 first_import_element_address@8:16 num_import_elements@10:16 "
                 "first_data_transfer_element_address@12:16 num_data_transfer_elements@14:16")
# (page code, subpage or None) -> (fields, page length)
MODE_PAGES = {(0x0A, None): (PAGE_CONTROL, 10), (0x0A, 1): (PAGE_CONTROL_EXT, 28), (0x02, None): (PAGE_DISCONNECT, 14),
              (0x1D, None): (PAGE_ELEMENT, 18)}


def mode_page(page_code, sub, values, ps=0):
    fields, plen = MODE_PAGES[(page_code, sub)]
    body = put(bytes(plen), fields, values)
    if sub is None:
        h = put(bytes(2), PAGE0, {"ps": ps, "spf": 0, "page_code": page_code})
        h = bits.deposit(h, 1, 7, 8, plen)
    else:
        h = put(bytes(4), SUBPAGE, {"ps": ps, "spf": 1, "page_code": page_code, "sub_page_code": sub})
        h = bits.deposit(h, 2, 7, 16, plen)
    return h + body


def mode_data(ten, header, block_descriptors, pages, tail=0):
    """mode parameter list: header (6: 4 bytes / 10: 8 bytes) + block descriptors + pages; MODE DATA LENGTH excludes itself"""
    bd = bytes(block_descriptors)
    body = bd + b"".join(pages)
    if ten:
        h = put(bytes(8), MODE_HDR10, header)
        h = bits.deposit(h, 6, 7, 16, len(bd))
        h = bits.deposit(h, 0, 7, 16, len(h) + len(body) - 2)
    else:
        h = put(bytes(4), MODE_HDR6, header)
        h = bits.deposit(h, 3, 7, 8, len(bd))
        h = bits.deposit(h, 0, 7, 8, len(h) + len(body) - 1)
    return h + body + bytes(tail)


# ---------------------------------------------------------------------------------------------------------
# SBC
# ---------------------------------------------------------------------------------------------------------
READCAP10 = F("returned_lba@0:32 block_length@4:32")
READCAP16 = F("returned_lba@0:64 block_length@8:32 p_type@12.3:3 prot_en@12.0:1 p_i_exponent@13.7:4 lbppbe@13.3:4 lbpme@14.7:1 "
              "lbprz@14.6:1 lowest_aligned_lba@14.5:14")
LBA_STATUS_DESC = F("lba@0:64 num_blocks@8:32 p_status@12.3:4")


def get_lba_status(descs, tail=0):
    body = b"".join(put(bytes(16), LBA_STATUS_DESC, d) for d in descs)
    return (len(body) + 4).to_bytes(4, "big") + bytes(4) + body + bytes(tail)


def report_luns(luns, tail=0):
    body = b"".join(l.to_bytes(8, "big") for l in luns)
    return len(body).to_bytes(4, "big") + bytes(4) + body + bytes(tail)


# ---------------------------------------------------------------------------------------------------------
# SPC: REPORT TARGET PORT GROUPS, REPORT PRIORITY, PERSISTENT RESERVE IN
# ---------------------------------------------------------------------------------------------------------
TPG_DESC = F("pref@0.7:1 asymmetric_access_state@0.3:4 t_sup@1.7:1 o_sup@1.6:1 u_sup@1.3:1 s_sup@1.2:1 an_sup@1.1:1 ao_sup@1.0:1 "
             "target_port_group@2:16 status_code@5:8 vendor@6:8 target_port_count@7:8")


def rtpg(groups, extended=False, transition_time=0, tail=0):
    """groups: [(values, [relative target port ids])]"""
    body = b""
    for (v, ports) in groups:
        body += put(bytes(8), TPG_DESC, dict(v, target_port_count=len(ports)))
        for p in ports:
            body += bytes(2) + p.to_bytes(2, "big")
    if extended:
        hdr = bytes(4)
        hdr = bits.deposit(hdr, 0, 6, 3, 1)
        hdr = bits.deposit(hdr, 1, 7, 8, transition_time)
        body = hdr + body
    return len(body).to_bytes(4, "big") + body + bytes(tail)


PRIORITY_DESC = F("current_priority@0.3:4 rtpi@2:16")


def report_priority(descs, tail=0):
    """descs: [(values, transport id bytes)]; descriptor: 0 priority, 2-3 RTPI, 6-7 ADDITIONAL DESCRIPTOR LENGTH, 8.. TransportID"""
    body = b""
    for (v, tid) in descs:
        d = put(bytes(8), PRIORITY_DESC, v)
        d = bits.deposit(d, 6, 7, 16, len(tid))
        body += d + bytes(tid)
    return len(body).to_bytes(4, "big") + body + bytes(tail)


def pr_read_keys(generation, keys, tail=0):
    body = b"".join(k.to_bytes(8, "big") for k in keys)
    return generation.to_bytes(4, "big") + len(body).to_bytes(4, "big") + body + bytes(tail)


def pr_read_reservation(generation, reservation=None, tail=0):
    """reservation: None or dict(reservation_key, scope, type)"""
    if reservation is None:
        return generation.to_bytes(4, "big") + bytes(4) + bytes(tail)
    b = bytes(24)
    b = bits.deposit(b, 0, 7, 32, generation)
    b = bits.deposit(b, 4, 7, 32, 16)
    b = bits.deposit(b, 8, 7, 64, reservation["reservation_key"])
    b = bits.deposit(b, 21, 7, 4, reservation["scope"])
    b = bits.deposit(b, 21, 3, 4, reservation["type"])
    return b + bytes(tail)


PR_CAPS = F("rlr_c@2.7:1 crh@2.4:1 sip_c@2.3:1 atp_c@2.2:1 ptpl_c@2.0:1 tmv@3.7:1 allow_commands@3.6:3 ptpl_a@3.0:1")
PR_TYPE_MASK = F("wr_ex_ar@4.7:1 ex_ac_ro@4.6:1 wr_ex_ro@4.5:1 ex_ac@4.3:1 wr_ex@4.1:1 ex_ac_ar@5.0:1")


def pr_report_capabilities(values, mask, tail=0):
    b = bits.deposit(bytes(8), 0, 7, 16, 8)
    b = put(b, PR_CAPS, values)
    b = put(b, PR_TYPE_MASK, mask)
    return b + bytes(tail)


FULL_STATUS_DESC = F("reservation_key@0:64 all_tg_pt@12.1:1 r_holder@12.0:1 scope@13.7:4 type@13.3:4 relative_target_port_id@18:16")


def pr_read_full_status(generation, descs, tail=0):
    """descs: [(values, transport id bytes)]"""
    body = b""
    for (v, tid) in descs:
        d = put(bytes(24), FULL_STATUS_DESC, v)
        d = bits.deposit(d, 20, 7, 32, len(tid))
        body += d + bytes(tid)
    return generation.to_bytes(4, "big") + len(body).to_bytes(4, "big") + body + bytes(tail)


# TransportIDs (SPC-4 7.6.4): byte 0: FORMAT CODE 7:6, PROTOCOL IDENTIFIER 3:0
def transport_id(d):
    """library-keyed dict -> bytes"""
    p = d["protocol_id"]
    if p == 5:
        fmt = d.get("tpid_format", 0)
        s = d["iscsi_name"] if not fmt else "%s,i,0x%s" % (d["iscsi_name"], d["iscsi_initiator_session_id"])
        raw = s.encode("utf-8") + b"\0"
        while len(raw) % 4:
            raw += b"\0"
        b = bytes(4)
        b = bits.deposit(b, 0, 7, 2, fmt)
        b = bits.deposit(b, 0, 3, 4, 5)
        b = bits.deposit(b, 2, 7, 16, len(raw))
        return b + raw
    b = bytearray(24)
    b[0] = p
    if p == 0:
        b[8:16] = d["n_port_name"]
    elif p == 3:
        b[8:16] = d["eui64_name"]
    elif p == 4:
        b[8:24] = d["initiator_port_identifier"]
    elif p == 6:
        b[4:12] = d["sas_address"]
    else:
        raise ValueError(p)
    return bytes(b)


# ---------------------------------------------------------------------------------------------------------
# SMC: READ ELEMENT STATUS
# ---------------------------------------------------------------------------------------------------------
ES_HDR = F("first_element_address@0:16 num_elements@2:16")
ES_PAGE = F("element_type@0.3:4 pvoltag@1.7:1 avoltag@1.6:1")
ES_DESC = F("element_address@0:16 except@2.2:1 full@2.0:1 additional_sense_code@4:8 additional_sense_code_qualifier@5:8 svalid@9.7:1 "
            "invert@9.6:1 ed@9.3:1 medium_type@9.2:3 source_storage_element_address@10:16")
ES_ACCESS = F("access@2.3:1")
ES_IMPEXP = F("oir@2.7:1 cmc@2.6:1 inenab@2.5:1 exenab@2.4:1 access@2.3:1 impexp@2.1:1")


def element_descriptor(etype, v, pvoltag, avoltag, trailer=4):
    d = put(bytes(12), ES_DESC, v)
    if etype in (2, 4):
        d = put(d, ES_ACCESS, v)
    if etype == 3:
        d = put(d, ES_IMPEXP, v)
    if pvoltag:
        d += bytes(v.get("primary_volume_tag", bytes(36)))
    if avoltag:
        d += bytes(v.get("alternate_volume_tag", bytes(36)))
    return d + bytes(trailer)


def read_element_status(first, count, pages, tail=0):
    """pages: [(element_type, pvoltag, avoltag, [descriptor value dicts])]"""
    body = b""
    for (etype, pv, av, descs) in pages:
        ds = [element_descriptor(etype, v, pv, av) for v in descs]
        edl = 12 + 4 + (36 if pv else 0) + (36 if av else 0)
        data = b"".join(ds)
        h = put(bytes(8), ES_PAGE, {"element_type": etype, "pvoltag": pv, "avoltag": av})
        h = bits.deposit(h, 2, 7, 16, edl)
        h = bits.deposit(h, 5, 7, 24, len(data))
        body += h + data
    h = put(bytes(8), ES_HDR, {"first_element_address": first, "num_elements": count})
    h = bits.deposit(h, 5, 7, 24, len(body))
    return h + body + bytes(tail)


# ---------------------------------------------------------------------------------------------------------
# MMC: READ DISC INFORMATION, READ CD
# ---------------------------------------------------------------------------------------------------------
DISC_STD = F("disc_information_length@0:16 disc_information_data_type@2.7:3 erasable@2.4:1 state_of_last_session@2.3:2 disc_status@2.1:2 "
             "number_of_first_track_on_disc@3:8 did_v@7.7:1 dbc_v@7.6:1 uru@7.5:1 dac_v@7.4:1 legacy@7.2:1 bg_format_status@7.1:2 "
             "disc_type@8:8 disc_identification@12:32 disc_application_code@32:8 number_of_opc_tables@33:8")
DISC_STD_SPLIT = {"number_of_sessions": (4, 9), "first_track_number_in_last_session": (5, 10), "last_track_number_in_last_session": (6, 11)}
DISC_STD_BLOBS = [("last_session_lead_in_start_address", 16, 4), ("last_possible_lead_out_start_address", 20, 4), ("disc_bar_code", 24, 8)]
DISC_TRACK = F("disc_information_length@0:16 disc_information_data_type@2.7:3 maximum_possible_number_of_the_tracks@4:16 "
               "number_of_the_assigned_tracks@6:16 maximum_possible_number_of_appendable_tracks@8:16 "
               "current_number_of_appendable_tracks@10:16")
DISC_POW = F("disc_information_length@0:16 disc_information_data_type@2.7:3 remaining_pow_replacements@4:32 "
             "remaining_pow_reallocation_map_entries@8:32 number_of_remaining_pow_updates@12:32")


def disc_information(dtype, values, blobs=None, tail=0):
    if dtype == 0:
        b = put(bytes(34), DISC_STD, dict(values, disc_information_data_type=0, disc_information_length=32))
        b = bytearray(b)
        for k, (lsb, msb) in DISC_STD_SPLIT.items():
            if k in values:
                b[lsb] = values[k] & 0xFF
                b[msb] = values[k] >> 8
        for (k, off, ln) in DISC_STD_BLOBS:
            if blobs and k in blobs:
                b[off:off + ln] = blobs[k]
        return bytes(b) + bytes(tail)
    if dtype == 1:
        return put(bytes(12), DISC_TRACK, dict(values, disc_information_data_type=1, disc_information_length=10)) + bytes(tail)
    if dtype == 2:
        return put(bytes(16), DISC_POW, dict(values, disc_information_data_type=2, disc_information_length=14)) + bytes(tail)
    raise ValueError(dtype)
