"""Independent bit-field arithmetic for the oracle.

A field is (byte, msb, width): it starts at bit `msb` (7 = most significant) of
byte `byte` and runs `width` bits towards less significant bits, continuing into
the following bytes (big-endian), exactly as the T10 standards print them.

Everything is done on int.from_bytes(whole buffer) with one shift and one mask;
nothing is shared with pyscsi.utils.converter.
"""


def _shift(buflen, byte, msb, width):
    # number of bits to the right of the field inside the whole-buffer integer
    total = buflen * 8
    first = byte * 8 + (7 - msb)          # index of the field's first bit, counted from the left
    last = first + width                   # one past its last bit
    if first < 0 or last > total or not (0 <= msb <= 7) or width <= 0:
        raise IndexError("field (%d,%d,%d) outside %d-byte buffer" % (byte, msb, width, buflen))
    return total - last


def extract(buf, byte, msb, width):
    sh = _shift(len(buf), byte, msb, width)
    return (int.from_bytes(bytes(buf), "big") >> sh) & ((1 << width) - 1)


def deposit(buf, byte, msb, width, value):
    """return a new bytes object with the field replaced by value"""
    if value < 0 or value >> width:
        raise ValueError("value %r does not fit %d bits" % (value, width))
    n = len(buf)
    sh = _shift(n, byte, msb, width)
    whole = int.from_bytes(bytes(buf), "big")
    mask = ((1 << width) - 1) << sh
    whole = (whole & ~mask) | (value << sh)
    return whole.to_bytes(n, "big")


def field_mask(buflen, byte, msb, width):
    sh = _shift(buflen, byte, msb, width)
    return ((1 << width) - 1) << sh


def parse_field(s):
    """'name@byte.msb:width' or 'name@byte:width' (msb defaults to 7) -> (name, byte, msb, width)"""
    name, rest = s.split("@")
    pos, width = rest.split(":")
    if "." in pos:
        byte, msb = pos.split(".")
    else:
        byte, msb = pos, "7"
    return name, int(byte), int(msb), int(width)


def alphabet(width, full8=False):
    """value alphabet for a field of `width` bits (DESIGN §1 shape 1)"""
    mx = (1 << width) - 1
    if width <= 4 or (width <= 8 and full8):
        return list(range(mx + 1))
    vals = {0, 1, mx, mx - 1}
    for i in range(width):
        vals.add(1 << i)
        vals.add(mx ^ (1 << i))
    if width > 8:
        a5 = int.from_bytes(b"\xa5" * ((width + 7) // 8), "big") & mx
        vals.add(a5)
        vals.add(a5 ^ mx)
    return sorted(vals)
