"""Consistency checks of the oracle's own tables (setup-time; never judges the library)."""
import os
import re

from vf.spec import opcodes

# header identifier -> (set, oracle identifier)
SCSI_H = {
    "TEST_UNIT_READY": ("spc", "TEST_UNIT_READY"), "REQUEST_SENSE": ("spc", "REQUEST_SENSE"),
    "FORMAT_UNIT": ("sbc", "FORMAT_UNIT"), "READ_BLOCK_LIMITS": ("ssc", "READ_BLOCK_LIMITS"),
    "REASSIGN_BLOCKS": ("sbc", "REASSIGN_BLOCKS"), "READ_6": ("sbc", "READ_6"), "WRITE_6": ("sbc", "WRITE_6"),
    "READ_REVERSE": ("ssc", "READ_REVERSE_6"), "WRITE_FILEMARKS": ("ssc", "WRITE_FILEMARKS_6"),
    "SPACE": ("ssc", "SPACE_6"), "INQUIRY": ("spc", "INQUIRY"),
    "RECOVER_BUFFERED_DATA": ("ssc", "RECOVER_BUFFERED_DATA"), "MODE_SELECT": ("spc", "MODE_SELECT_6"),
    "RESERVE": ("spc", "RESERVE_6"), "RELEASE": ("spc", "RELEASE_6"), "ERASE": ("ssc", "ERASE_6"),
    "MODE_SENSE": ("spc", "MODE_SENSE_6"), "START_STOP": ("sbc", "START_STOP_UNIT"),
    "RECEIVE_DIAGNOSTIC": ("spc", "RECEIVE_DIAGNOSTIC_RESULTS"), "SEND_DIAGNOSTIC": ("spc", "SEND_DIAGNOSTIC"),
    "ALLOW_MEDIUM_REMOVAL": ("spc", "PREVENT_ALLOW_MEDIUM_REMOVAL"), "READ_CAPACITY": ("sbc", "READ_CAPACITY_10"),
    "READ_10": ("sbc", "READ_10"), "WRITE_10": ("sbc", "WRITE_10"), "SEEK_10": ("mmc", "SEEK_10"),
    "WRITE_VERIFY": ("sbc", "WRITE_AND_VERIFY_10"), "VERIFY": ("sbc", "VERIFY_10"),
    "PRE_FETCH": ("sbc", "PRE_FETCH_10"), "READ_POSITION": ("ssc", "READ_POSITION"),
    "SYNCHRONIZE_CACHE": ("sbc", "SYNCHRONIZE_CACHE_10"), "READ_DEFECT_DATA": ("sbc", "READ_DEFECT_DATA_10"),
    "WRITE_BUFFER": ("spc", "WRITE_BUFFER"), "READ_BUFFER": ("spc", "READ_BUFFER_10"),
    "READ_LONG": ("sbc", "READ_LONG_10"), "WRITE_LONG": ("sbc", "WRITE_LONG_10"),
    "WRITE_SAME": ("sbc", "WRITE_SAME_10"), "READ_TOC": ("mmc", "READ_TOC_PMA_ATIP"),
    "LOG_SELECT": ("spc", "LOG_SELECT"), "LOG_SENSE": ("spc", "LOG_SENSE"),
    "MODE_SELECT_10": ("spc", "MODE_SELECT_10"), "RESERVE_10": ("spc", "RESERVE_10"),
    "RELEASE_10": ("spc", "RELEASE_10"), "MODE_SENSE_10": ("spc", "MODE_SENSE_10"),
    "PERSISTENT_RESERVE_IN": ("spc", "PERSISTENT_RESERVE_IN"), "PERSISTENT_RESERVE_OUT": ("spc", "PERSISTENT_RESERVE_OUT"),
    "MOVE_MEDIUM": ("smc", "MOVE_MEDIUM"), "READ_12": ("sbc", "READ_12"), "WRITE_12": ("sbc", "WRITE_12"),
    "WRITE_VERIFY_12": ("sbc", "WRITE_AND_VERIFY_12"), "READ_ELEMENT_STATUS": ("smc", "READ_ELEMENT_STATUS"),
    "SEND_VOLUME_TAG": ("smc", "SEND_VOLUME_TAG"),
}
CDROM_H = {
    "BLANK": "BLANK", "CLOSE_TRACK": "CLOSE_TRACK_SESSION", "FLUSH_CACHE": "SYNCHRONIZE_CACHE", "FORMAT_UNIT": "FORMAT_UNIT",
    "GET_CONFIGURATION": "GET_CONFIGURATION", "GET_EVENT_STATUS_NOTIFICATION": "GET_EVENT_STATUS_NOTIFICATION",
    "GET_PERFORMANCE": "GET_PERFORMANCE", "INQUIRY": "INQUIRY", "LOAD_UNLOAD": "LOAD_UNLOAD_MEDIUM",
    "MECHANISM_STATUS": "MECHANISM_STATUS", "MODE_SELECT_10": "MODE_SELECT_10", "MODE_SENSE_10": "MODE_SENSE_10",
    "PREVENT_ALLOW_MEDIUM_REMOVAL": "PREVENT_ALLOW_MEDIUM_REMOVAL", "READ_10": "READ_10", "READ_12": "READ_12",
    "READ_BUFFER": "READ_BUFFER_10", "READ_BUFFER_CAPACITY": "READ_BUFFER_CAPACITY", "READ_CDVD_CAPACITY": "READ_CAPACITY",
    "READ_CD": "READ_CD", "READ_CD_MSF": "READ_CD_MSF", "READ_DISC_INFO": "READ_DISC_INFORMATION",
    "READ_DVD_STRUCTURE": "READ_DISC_STRUCTURE", "READ_FORMAT_CAPACITIES": "READ_FORMAT_CAPACITIES",
    "READ_TRACK_RZONE_INFO": "READ_TRACK_INFORMATION", "READ_TOC_PMA_ATIP": "READ_TOC_PMA_ATIP",
    "REPAIR_RZONE_TRACK": "REPAIR_TRACK", "REPORT_KEY": "REPORT_KEY", "REQUEST_SENSE": "REQUEST_SENSE",
    "RESERVE_RZONE_TRACK": "RESERVE_TRACK", "SEND_CUE_SHEET": "SEND_CUE_SHEET", "SEEK": "SEEK_10",
    "SEND_DVD_STRUCTURE": "SEND_DISC_STRUCTURE", "SEND_KEY": "SEND_KEY", "SEND_OPC": "SEND_OPC_INFORMATION",
    "SET_READ_AHEAD": "SET_READ_AHEAD", "SET_STREAMING": "SET_STREAMING", "START_STOP_UNIT": "START_STOP_UNIT",
    "TEST_UNIT_READY": "TEST_UNIT_READY", "VERIFY_10": "VERIFY_10", "WRITE_10": "WRITE_10", "WRITE_12": "WRITE_12",
    "WRITE_AND_VERIFY_10": "WRITE_AND_VERIFY_10", "WRITE_BUFFER": "WRITE_BUFFER", "SET_SPEED": "SET_CD_SPEED",
}


def _defs(path, prefix=""):
    out = {}
    if not os.path.exists(path):
        return out
    for line in open(path, errors="replace"):
        m = re.match(r"#define\s+%s([A-Z_0-9]+)\s+(0x[0-9a-fA-F]+)" % prefix, line)
        if m:
            out.setdefault(m.group(1), int(m.group(2), 16))
    return out


def run():
    n = 0
    h = _defs("/usr/include/scsi/scsi.h")
    for name, (st, key) in SCSI_H.items():
        if name in h:
            v = opcodes.t10_value(st, key)
            assert v == h[name], "oracle table disagrees with scsi/scsi.h on %s: %r vs %#x" % (name, v, h[name])
            n += 1
    c = _defs("/usr/include/linux/cdrom.h", "GPCMD_")
    for name, key in CDROM_H.items():
        if name in c:
            v = opcodes.t10_value("mmc", key)
            assert v == c[name], "oracle table disagrees with linux/cdrom.h on %s: %r vs %#x" % (name, v, c[name])
            n += 1
    # group <-> length coherent with the tables: every opcode in the tables has a fixed length or is 7F/7E
    for st, tab in list(opcodes.BY_SET.items()) + [("spc", opcodes.SPC)]:
        for k, v in tab.items():
            assert 0 <= v <= 0xFF
            n += 1
    try:
        from vf.spec import cdb
        n += cdb.selfcheck()
    except ImportError:
        pass
    return n
